"""C14 - Netlink/XFRM requests are byte-exact for the kernel ABI and say what was meant.

L1 (A10) every ctypes mirror has the layout of the kernel structure it stands for: field count, offsets,
         sizes, total size and byte order, computed for both descriptions under the LP64 natural-alignment
         rules (oracle: <linux/xfrm.h>, <linux/netlink.h>).
L2       message types, attribute types, policy directions, modes, multicast groups, netlink flags and
         types equal the header's values.
L3 (A5)  every request builder feeds each kernel field from the like-oriented parameter (selector, id,
         addresses, family, masks tied to their port, lifetimes, algorithm name / key length / key bytes,
         message type and flags).
L4 (A6)  framing: nlmsghdr.length, attribute length, alignment needs (computed from L1's sizes), reply
         handling (error <=> NLMSG_ERROR with non-zero code; ack is success).
L5       event decoding: payload/attribute registries pair each message with the mirror of the structure
         the kernel sends; parse copies min(len, sizeof); the controller reads fields that exist.
"""
import ast

from ..finite import Interp
from ..model import AnalysisError, src, walk_no_nested
from ..terms import callee_name, calls_in, compare_parts, kwargs_of, single_def
from ..uapi import Headers, py_layout
from . import common

EXPLANATION = ('static analysis: natural-alignment layout of 17 ctypes mirrors compared leaf by leaf with the layout of the '
               'kernel structures parsed from the UAPI headers, ~70 numeric constants against the header enums/defines, '
               'keyword-argument orientation of the five request builders, and framing arithmetic derived from the computed sizes')
ASSUMPTIONS = [
    'target ABI is x86-64 / LP64 (natural alignment, 8-octet __u64 alignment); little-endian host for native fields',
    'kernel replies to our own requests are well-formed (the reply loop has no progress fact for nlmsg_len == 0)',
    'declined: what the running kernel does with a request; decoding actual socket bytes',
]

PAIRS = [('xfrm.XfrmAddress', 'xfrm_address_t'), ('xfrm.XfrmSelector', 'xfrm_selector'), ('xfrm.XfrmId', 'xfrm_id'),
         ('xfrm.XfrmLifetimeCfg', 'xfrm_lifetime_cfg'), ('xfrm.XfrmLifetimeCur', 'xfrm_lifetime_cur'),
         ('xfrm.XfrmStats', 'xfrm_stats'), ('xfrm.XfrmUserSaInfo', 'xfrm_usersa_info'), ('xfrm.XfrmUserSaId', 'xfrm_usersa_id'),
         ('xfrm.XfrmUserTmpl', 'xfrm_user_tmpl'), ('xfrm.XfrmUserPolicyInfo', 'xfrm_userpolicy_info'),
         ('xfrm.XfrmUserPolicyId', 'xfrm_userpolicy_id'), ('xfrm.XfrmUserAcquire', 'xfrm_user_acquire'),
         ('xfrm.XfrmUserExpire', 'xfrm_user_expire'), ('xfrm.XfrmUserSaFlush', 'xfrm_usersa_flush'),
         ('xfrm.XfrmAlgo', 'xfrm_algo'), ('netlink.NetlinkHeader', 'nlmsghdr'), ('netlink.NetlinkErrorMsg', 'nlmsgerr')]
# mirror fields that are declared native although the kernel field is network order, because the builders only ever
# store the byte-order-invariant constants 0 / 0xFFFF in them (checked at the store sites by L3)
# frozen spelling differences between mirror and kernel field names (read and confirmed one by one)
NAME_ALIASES = {('addr', 'a6'), ('soft_packed_limit', 'soft_packet_limit'), ('key', 'alg_key'), ('length', 'nlmsg_len'),
                ('type', 'nlmsg_type'), ('flags', 'nlmsg_flags'), ('seq', 'nlmsg_seq'), ('pid', 'nlmsg_pid'), ('cur', 'curlft'),
                ('selector', 'sel')}
ORDER_INVARIANT = {('xfrm_selector', 'dport_mask'), ('xfrm_selector', 'sport_mask')}


def leaves(st, base=0, path=''):
    out = []
    for f in st.fields:
        if f.struct is not None and f.count is None:
            out += leaves(f.struct, base + f.offset, path + f.name + '.')
        else:
            out.append((path + f.name, base + f.offset, f.size, f.order))
    return out


def run(ctx):
    prog, res = ctx.prog, ctx.res
    H = Headers()
    for n in H.notes:
        ctx.note(n)
    ctx.stats['UAPI oracle digests'] = H.digests

    # ---------------------------------------------------------------- L1
    nfields = 0
    sizes = {}
    for pyq, cname in PAIRS:
        cls = prog.cls(pyq)
        ctx.require(cname in H.structs, 'UAPI reader did not find struct %s' % cname)
        ps, cs = py_layout(prog, cls), H.structs[cname]
        sizes[pyq] = ps.size
        pl, cl = leaves(ps), leaves(cs)
        flex = cname == 'xfrm_algo'
        if flex:
            # variable-length key: compare the fixed part; the mirror's fixed-size key array starts where alg_key[] starts
            ctx.check(len(pl) == 3 and len(cl) == 3 and pl[2][1] == cl[2][1] == 68, 'L1', 'XfrmAlgo: the key starts at offset 68 '
                      '(alg_key[] of struct xfrm_algo)', key=('L1', pyq, 'key-offset'))
            pl, cl = pl[:2], cl[:2]
        else:
            ctx.check(ps.size == cs.size, 'L1', '%s has the size of struct %s (%d octets)' % (cls.name, cname, cs.size),
                      key=('L1', pyq, 'size'), detail={'mirror': ps.size, 'kernel': cs.size})
        ctx.check(len(pl) == len(cl), 'L1', '%s has as many leaf fields as struct %s (%d)' % (cls.name, cname, len(cl)),
                  key=('L1', pyq, 'count'), detail={'mirror': [p[0] for p in pl], 'kernel': [c[0] for c in cl]})
        for (pn, po, psz, pord), (cn, co, csz, cord) in zip(pl, cl):
            nfields += 1
            ctx.check((po, psz) == (co, csz), 'L1', '%s.%s sits at offset %d with %d octets like %s.%s' % (cls.name, pn, co, csz, cname, cn),
                      key=('L1', pyq, 'field', cn), detail={'mirror': (pn, po, psz), 'kernel': (cn, co, csz)})
            leaf = cn.split('.')[-1]
            pparts, cparts = pn.split('.'), cn.split('.')
            same = len(pparts) == len(cparts) and all(a == b or (a, b) in NAME_ALIASES for a, b in zip(pparts, cparts))
            ctx.check(same, 'L1', '%s.%s is the mirror of %s.%s (same field name, so same-width neighbours are not swapped)' % (
                cls.name, pn, cname, cn), key=('L1', pyq, 'name', cn), detail={'mirror': pn, 'kernel': cn})
            if cord == 'B':
                inv = any(leaf == f for (_, f) in ORDER_INVARIANT)
                ok = pord in ('B', '-') or inv
                ctx.check(ok, 'L1', '%s.%s is network byte order like the kernel field (big-endian type or byte array%s)' % (
                    cls.name, pn, ', or only byte-order-invariant constants' if inv else ''), key=('L1', pyq, 'order', cn),
                    detail={'mirror order': pord})
            elif cord == 'N':
                ctx.check(pord == 'N', 'L1', '%s.%s is host byte order like the kernel field' % (cls.name, pn),
                          key=('L1', pyq, 'order', cn), detail={'mirror order': pord})
    ctx.floor('L1 leaf fields compared', nfields, 140)

    # ---------------------------------------------------------------- L2
    ncons = 0
    for mname in ('xfrm', 'netlink'):
        m = prog.module(mname)
        for name, val in m.consts.items():
            if not (name.startswith(('XFRM', 'NLM')) and name.isupper()):
                continue
            try:
                v = prog.const_eval(val, m)
            except AnalysisError:
                continue
            if name in H.consts:
                ncons += 1
                ctx.check(v == H.consts[name], 'L2', '%s.%s = %d as in the kernel header' % (mname, name, H.consts[name]),
                          key=('L2', mname, name), detail={'found': v})
            else:
                ctx.note('constant %s.%s = %s has no literal counterpart in the vendored headers (not checked)' % (mname, name, v))
    ctx.floor('L2 constants compared with the headers', ncons, 55)
    mode = prog.enum_members('xfrm.Mode')
    ctx.check(mode == {'TRANSPORT': H.consts['XFRM_MODE_TRANSPORT'], 'TUNNEL': H.consts['XFRM_MODE_TUNNEL']}, 'L2',
              'xfrm.Mode members are XFRM_MODE_TRANSPORT / XFRM_MODE_TUNNEL', key=('L2', 'Mode'), detail={'found': mode})
    xs = ctx.func('xfrm.Xfrm.get_socket')
    ctx.check(src(xs.node.body[-1]) == 'return cls._get_socket(XFRMGRP_ACQUIRE | XFRMGRP_EXPIRE)', 'L2',
              'the event socket subscribes to the ACQUIRE and EXPIRE groups', key=('L2', 'groups'), site=ctx.site(xs, xs.node))
    fam = prog.cls('xfrm.Xfrm').lookup_attr('netlink_family')
    ctx.check(fam is not None and src(fam) == 'socket.NETLINK_XFRM', 'L2', 'netlink family is NETLINK_XFRM', key=('L2', 'family'))

    # ---------------------------------------------------------------- L3
    common.create_sa_orientation(ctx, 'L3')
    check_lifetimes(ctx)
    check_policy_builder(ctx)
    check_delete_flush(ctx)
    check_algo(ctx)
    fa = ctx.func('xfrm.XfrmAddress.from_ipaddr')
    t = src(fa.node)
    ctx.check("result.addr[0], = unpack_from('>I', data)" in t and "result.addr[1], result.addr[2], result.addr[3] = unpack_from('>III', data, 4)" in t
              and 'data = ip_addr.packed' in t and 'if ip_addr.version == 6' in t, 'L3',
              'XfrmAddress.from_ipaddr stores the packed address in network order (IPv4 in the first word)', key=('L3', 'from-ipaddr'),
              site=ctx.site(fa, fa.node))
    ta = ctx.func('xfrm.XfrmAddress.to_ipaddr')
    t = src(ta.node)
    ctx.check('data = bytes(self.addr)' in t and 'if family == socket.AF_INET:' in t and 'data = data[:4]' in t and 'return ip_address(data)' in t,
              'L5', 'XfrmAddress.to_ipaddr reads 4 octets for AF_INET and 16 otherwise', key=('L5', 'to-ipaddr'), site=ctx.site(ta, ta.node))

    # ---------------------------------------------------------------- L4
    check_framing(ctx, sizes)

    # ---------------------------------------------------------------- L5
    check_events(ctx, H)


def lft_kwargs(call):
    return {k.arg: k.value for k in call.keywords}


def check_lifetimes(ctx):
    prog = ctx.prog
    inf = ctx.func('xfrm.XfrmLifetimeCfg.infinite')
    rets = [r for r in walk_no_nested(inf.node) if isinstance(r, ast.Return)]
    ok = len(rets) == 1 and isinstance(rets[0].value, ast.Call)
    M64 = 0xFFFFFFFFFFFFFFFF
    want_inf = {'soft_byte_limit': M64, 'hard_byte_limit': M64, 'soft_packed_limit': M64, 'hard_packet_limit': M64,
                'soft_add_expires_seconds': 0, 'hard_add_expires_seconds': 0, 'soft_use_expires_seconds': 0,
                'hard_use_expires_seconds': 0}
    if ok:
        kw = {k: prog.const_eval(v, inf.module, inf.cls) for k, v in lft_kwargs(rets[0].value).items()}
        ok = kw == want_inf
    ctx.check(ok, 'L3', 'XfrmLifetimeCfg.infinite(): all byte/packet limits XFRM_INF, all time limits 0', key=('L3', 'lft-infinite'),
              site=ctx.site(inf, inf.node))
    cs = ctx.func('xfrm.Xfrm.create_sa')
    us = [c for c in calls_in(cs.node) if callee_name(c) == 'XfrmUserSaInfo']
    lft = lft_kwargs(us[0]).get('lft') if us else None
    ok = isinstance(lft, ast.IfExp) and src(lft.test) == 'lifetime < 0' and src(lft.body) == 'XfrmLifetimeCfg.infinite()' \
        and isinstance(lft.orelse, ast.Call) and callee_name(lft.orelse) == 'XfrmLifetimeCfg'
    if ok:
        kw = lft_kwargs(lft.orelse)
        for L in (1, 60, 300):
            vals = {k: Interp(prog, cs, {'lifetime': L}).ev(v) for k, v in kw.items()}
            ok = ok and vals == dict(want_inf, soft_add_expires_seconds=L, hard_add_expires_seconds=L + 10)
    ctx.check(ok, 'L3', 'create_sa lifetimes: negative -> infinite; otherwise soft = lifetime and hard = lifetime + 10 seconds after '
              'creation, no byte/packet/use limits', key=('L3', 'lft-sa'), site=ctx.site(cs, cs.node))


def check_policy_builder(ctx):
    prog, res = ctx.prog, ctx.res
    fi = ctx.func('xfrm.Xfrm.create_policy')
    pol = [c for c in calls_in(fi.node) if callee_name(c) == 'XfrmUserPolicyInfo']
    ctx.check(len(pol) == 1, 'L3', 'create_policy builds one xfrm_userpolicy_info', key=('L3', 'policy'), site=ctx.site(fi, fi.node))
    if len(pol) != 1:
        return
    kw = lft_kwargs(pol[0])
    sel = kw.get('sel')
    if isinstance(sel, ast.Call) and callee_name(sel) == 'XfrmSelector':
        common.selector_orientation(ctx, 'L3', fi, sel, 'create_policy')
    else:
        ctx.bad('L3', ('L3', 'create_policy', 'no-selector'), 'create_policy has no selector', ctx.site(fi, fi.node))
    want = {'dir': 'direction', 'index': 'index', 'action': 'XFRM_POLICY_ALLOW', 'lft': 'XfrmLifetimeCfg.infinite()'}
    for k, v in want.items():
        ctx.check(src(kw.get(k)) == v, 'L3', 'create_policy: %s = %s' % (k, v), key=('L3', 'create_policy', k), site=ctx.site(fi, pol[0]),
                  detail={'found': src(kw.get(k))})
    ctx.check(set(kw) == set(want) | {'sel'}, 'L3', 'create_policy sets no other policy field', key=('L3', 'create_policy', 'extra'),
              site=ctx.site(fi, pol[0]), detail={'found': sorted(kw)})
    tm = [c for c in calls_in(fi.node) if callee_name(c) == 'XfrmUserTmpl']
    ctx.check(len(tm) == 1, 'L3', 'create_policy builds one template', key=('L3', 'tmpl'), site=ctx.site(fi, fi.node))
    if len(tm) == 1:
        tk = lft_kwargs(tm[0])
        idk = {k: src(v) for k, v in lft_kwargs(tk['id']).items()} if isinstance(tk.get('id'), ast.Call) else {}
        ctx.check(idk == {'daddr': 'XfrmAddress.from_ipaddr(dst)', 'proto': 'ipsec_proto'}, 'L3',
                  'template id: tunnel destination and IPsec protocol (SPI 0 = any)', key=('L3', 'tmpl-id'), site=ctx.site(fi, tm[0]),
                  detail={'found': idk})
        wt = {'family': ('socket.AF_INET if src.version == 4 else socket.AF_INET6', 'socket.AF_INET6 if src.version == 6 else socket.AF_INET'),
              'saddr': ('XfrmAddress.from_ipaddr(src)',), 'mode': ('mode',), 'aalgos': ('4294967295',), 'ealgos': ('4294967295',),
              'calgos': ('4294967295',)}
        for k, vs in wt.items():
            ctx.check(src(tk.get(k)) in vs, 'L3', 'template: %s = %s' % (k, vs[0]), key=('L3', 'tmpl', k), site=ctx.site(fi, tm[0]),
                      detail={'found': src(tk.get(k))})
    sr = [c for c in calls_in(fi.node) if callee_name(c) == 'send_recv']
    pv = [src(t) for n in walk_no_nested(fi.node) if isinstance(n, ast.Assign) and n.value is pol[0] for t in n.targets]
    tv = [src(t) for n in walk_no_nested(fi.node) if isinstance(n, ast.Assign) and tm and n.value is tm[0] for t in n.targets]
    ctx.check(len(sr) == 1 and pv and tv and [src(a) for a in sr[0].args] == ['XFRM_MSG_NEWPOLICY', 'NLM_F_REQUEST | NLM_F_ACK', pv[0],
                                                                               '{XFRMA_TMPL: %s}' % tv[0]], 'L3',
              'create_policy sends XFRM_MSG_NEWPOLICY with REQUEST|ACK, the policy and the template as XFRMA_TMPL', key=('L3', 'policy-send'),
              site=ctx.site(fi, fi.node))


def check_delete_flush(ctx):
    fi = ctx.func('xfrm.Xfrm.delete_sa')
    ps = fi.call_params()
    c = [x for x in calls_in(fi.node) if callee_name(x) == 'XfrmUserSaId']
    ok = len(c) == 1
    if ok:
        kw = {k: src(v) for k, v in lft_kwargs(c[0]).items()}
        ok = kw == {'daddr': 'XfrmAddress.from_ipaddr(%s)' % ps[0], 'proto': ps[1], 'spi': 'create_byte_array(%s)' % ps[2],
                    'family': 'socket.AF_INET if %s.version == 4 else socket.AF_INET6' % ps[0]}
    ctx.check(ok, 'L3', 'delete_sa identifies the SA by (destination address, its family, protocol, SPI)', key=('L3', 'delete-id'),
              site=ctx.site(fi, fi.node))
    sr = [x for x in calls_in(fi.node) if callee_name(x) == 'send_recv']
    ctx.check(len(sr) == 1 and [src(a) for a in sr[0].args[:2]] == ['XFRM_MSG_DELSA', 'NLM_F_REQUEST | NLM_F_ACK'], 'L3',
              'delete_sa sends XFRM_MSG_DELSA with REQUEST|ACK', key=('L3', 'delete-send'), site=ctx.site(fi, fi.node))
    for name, msg in (('flush_policies', 'XFRM_MSG_FLUSHPOLICY'), ('flush_sas', 'XFRM_MSG_FLUSHSA')):
        f = ctx.func('xfrm.Xfrm.' + name)
        sr = [x for x in calls_in(f.node) if callee_name(x) == 'send_recv']
        fl = [x for x in calls_in(f.node) if callee_name(x) == 'XfrmUserSaFlush']
        ok = len(sr) == 1 and len(fl) == 1 and [src(a) for a in sr[0].args[:2]] == [msg, 'NLM_F_REQUEST | NLM_F_ACK'] \
            and {k: src(v) for k, v in lft_kwargs(fl[0]).items()} == {'proto': '0'}
        ctx.check(ok, 'L3', '%s sends %s for every protocol (proto = 0) with REQUEST|ACK' % (name, msg), key=('L3', name),
                  site=ctx.site(f, f.node))


def check_algo(ctx):
    fi = ctx.func('xfrm.XfrmAlgo.build')
    c = [x for x in calls_in(fi.node) if callee_name(x) == 'XfrmAlgo']
    ok = len(c) == 1
    if ok:
        kw = {k: src(v) for k, v in lft_kwargs(c[0]).items()}
        ps = fi.call_params()
        ok = kw == {'alg_name': 'create_byte_array(%s, 64)' % ps[0], 'alg_key_len': 'len(%s) * 8' % ps[1],
                    'key': 'create_byte_array(%s, 64)' % ps[1]}
    ctx.check(ok, 'L3', 'XfrmAlgo.build: zero-padded 64-octet name, key length in bits, key bytes at the start of the key array',
              key=('L3', 'algo-build'), site=ctx.site(fi, fi.node))
    cb = ctx.prog.functions.get('xfrm.create_byte_array')
    ctx.require(cb is not None, 'anchor vanished: create_byte_array')
    t = src(cb.node)
    ctx.check('return (c_ubyte * size)(*data)' in t and 'size = len(data)' in t, 'L3',
              'create_byte_array copies the bytes into an array of the given size (zero filled)', key=('L3', 'byte-array'),
              site=ctx.site(cb, cb.node))


def check_framing(ctx, sizes):
    prog, res = ctx.prog, ctx.res
    sr = ctx.func('netlink.NetlinkProtocol.send_recv')
    hd = [c for c in calls_in(sr.node) if callee_name(c) == 'NetlinkHeader']
    ok = len(hd) == 1
    if ok:
        kw = {k: src(v) for k, v in lft_kwargs(hd[0]).items()}
        ps = sr.call_params()
        ok = kw.get('length') == 'sizeof(NetlinkHeader) + len(data)' and kw.get('type') == ps[0] and kw.get('flags') == ps[1] \
            and 'seq' in kw and kw.get('pid') == 'os.getpid()'
    ctx.check(ok, 'L4', 'nlmsghdr: length = header size + payload and attributes, type and flags as requested', key=('L4', 'header'),
              site=ctx.site(sr, sr.node))
    d0 = [src(d) for d in res.local_defs(sr).get('data', []) if isinstance(d, ast.AST)]
    adds = [src(n.value) for n in walk_no_nested(sr.node) if isinstance(n, ast.AugAssign) and src(n.target) == 'data']
    snd = [c for c in calls_in(sr.node) if callee_name(c) == 'send']
    ctx.check('bytearray(payload)' in d0 and adds == ['bytes(attr)'] and len(snd) == 1 and src(snd[0].args[0]) == 'bytes(header) + data', 'L4',
              'the request is header | payload structure | attributes in that order', key=('L4', 'order'), site=ctx.site(sr, sr.node))
    af = ctx.func('netlink.NetlinkProtocol._attribute_factory')
    t = src(af.node)
    ok = "_fields_ = (('len', c_uint16), ('code', c_uint16), ('data', type(data)))" in t \
        and 'return _Internal(code=code, len=sizeof(_Internal), data=data)' in t
    ctx.check(ok, 'L4', 'attribute = nla_len (header + data), nla_type, data', key=('L4', 'attribute'), site=ctx.site(af, af.node))
    # alignment: every payload struct that is followed by attributes, and every attribute payload, is a multiple of 4
    for q in ('xfrm.XfrmUserSaInfo', 'xfrm.XfrmUserPolicyInfo', 'xfrm.XfrmAlgo', 'xfrm.XfrmUserTmpl'):
        ctx.check(sizes[q] % 4 == 0, 'L4', '%s is %d octets, a multiple of 4: no NLMSG_ALIGN / NLA_ALIGN padding is needed after it' % (
            q.split('.')[-1], sizes[q]), key=('L4', 'align', q))
    ctx.check(sizes['netlink.NetlinkHeader'] == 16, 'L4', 'NLMSG_HDRLEN is 16', key=('L4', 'hdrlen'))
    # reply handling
    g = None
    conds = [n for n in walk_no_nested(sr.node) if isinstance(n, ast.If) and 'NLMSG_ERROR' in src(n.test)]
    ok = len(conds) == 1 and isinstance(conds[0].body[-1], ast.Raise) and 'NetlinkError' in src(conds[0].body[-1])
    if ok:
        t_ = conds[0].test
        for ty, err, want in ((2, -1, True), (2, 0, False), (2, -17, True), (3, -1, False), (16, 5, False)):
            v = Interp(prog, sr, {'header.type': ty, 'payload.error': err, 'NLMSG_ERROR': 2}).ev(t_)
            ok = ok and bool(v) == want
    ctx.check(ok, 'L4', 'a reply raises NetlinkError exactly when it is NLMSG_ERROR with a non-zero code; an ack (code 0) is success',
              key=('L4', 'reply-error'), site=ctx.site(sr, sr.node))
    adv = [src(n) for n in walk_no_nested(sr.node) if isinstance(n, ast.Assign) and src(n.targets[0]) == 'data' and 'header.length' in src(n.value)]
    ctx.check(adv == ['data = data[header.length:]'], 'L4', 'the reply buffer is consumed message by message using nlmsg_len',
              key=('L4', 'reply-advance'), site=ctx.site(sr, sr.node))
    ds = ctx.func('xfrm.Xfrm.delete_sa')
    tr = [n for n in walk_no_nested(ds.node) if isinstance(n, ast.Try)]
    ctx.check(len(tr) == 1 and any('NetlinkError' in src(h.type) for h in tr[0].handlers if h.type is not None), 'L4',
              'delete_sa tolerates a kernel refusal (already gone) and reports it', key=('L4', 'delete-tolerant'), site=ctx.site(ds, ds.node))


def check_events(ctx, H):
    prog = ctx.prog
    base = prog.cls('netlink.NetlinkProtocol').lookup_attr('payload_types')
    ok = isinstance(base, ast.Dict) and {src(k): src(v) for k, v in zip(base.keys, base.values)} == {'NLMSG_ERROR': 'NetlinkErrorMsg'}
    ctx.check(ok, 'L5', 'NLMSG_ERROR replies are decoded as nlmsgerr', key=('L5', 'error-payload'))
    x = prog.cls('xfrm.Xfrm')
    upd = None
    for st in x.node.body:
        if isinstance(st, ast.Expr) and isinstance(st.value, ast.Call) and callee_name(st.value) == 'update' \
                and src(st.value.func.value) == 'payload_types' and isinstance(st.value.args[0], ast.Dict):
            upd = {src(k): src(v) for k, v in zip(st.value.args[0].keys, st.value.args[0].values)}
    ctx.check(upd == {'XFRM_MSG_ACQUIRE': 'XfrmUserAcquire', 'XFRM_MSG_EXPIRE': 'XfrmUserExpire', 'XFRM_MSG_NEWPOLICY': 'XfrmUserPolicyInfo'},
              'L5', 'ACQUIRE is decoded as xfrm_user_acquire, EXPIRE as xfrm_user_expire, NEWPOLICY as xfrm_userpolicy_info',
              key=('L5', 'payload-types'), detail={'found': upd})
    at = x.lookup_attr('attribute_types')
    ctx.check(isinstance(at, ast.Dict) and {src(k): src(v) for k, v in zip(at.keys, at.values)} == {'XFRMA_TMPL': 'XfrmUserTmpl'}, 'L5',
              'the XFRMA_TMPL attribute is decoded as xfrm_user_tmpl', key=('L5', 'attribute-types'))
    ps = ctx.func('netlink.NetlinkStructure.parse')
    t = src(ps.node)
    ctx.check('fit = min(len(data), sizeof(cls))' in t and 'memmove(addressof(result), data, fit)' in t and 'result = cls()' in t, 'L5',
              'structure parsing copies min(len(data), sizeof) octets into a zeroed instance', key=('L5', 'parse'), site=ctx.site(ps, ps.node))
    pm = ctx.func('netlink.NetlinkProtocol.parse_message')
    t = src(pm.node)
    ctx.check('header = NetlinkHeader.parse(data)' in t and 'cls.payload_types[header.type].parse(data[sizeof(header):])' in t
              and 'cls._parse_attributes(data[sizeof(header) + sizeof(payload):header.length])' in t, 'L5',
              'an event is header, then the payload structure of its type, then attributes up to nlmsg_len', key=('L5', 'parse-message'),
              site=ctx.site(pm, pm.node))
    pa = ctx.func('netlink.NetlinkProtocol._parse_attributes')
    t = src(pa.node)
    ctx.check("length, attr_type = unpack_from('HH', data)" in t and 'cls.attribute_types[attr_type].parse(data[4:length])' in t
              and 'data = data[length:]' in t and 'if length == 0:' in t, 'L5',
              'attributes are (nla_len, nla_type) in host order followed by nla_len - 4 octets of data', key=('L5', 'parse-attributes'),
              site=ctx.site(pa, pa.node))
    # controller reads fields that exist in the mirrors
    ctrl_reads = {'ikesacontroller.IkeSaController.process_acquire': ['xfrm_acquire.id.daddr', 'xfrm_acquire.saddr', 'xfrm_acquire.sel.family',
                                                                      'xfrm_acquire.sel.saddr', 'xfrm_acquire.sel.daddr', 'xfrm_acquire.sel.sport',
                                                                      'xfrm_acquire.sel.dport', 'xfrm_acquire.sel.proto', 'xfrm_acquire.policy.index'],
                  'ikesacontroller.IkeSaController.process_expire': ['xfrm_expire.state.id.spi', 'xfrm_expire.hard']}
    roots = {'xfrm_acquire': 'xfrm.XfrmUserAcquire', 'xfrm_expire': 'xfrm.XfrmUserExpire'}
    for q, reads in ctrl_reads.items():
        fi = ctx.func(q)
        t = src(fi.node)
        for r in reads:
            parts = r.split('.')
            st = py_layout(prog, prog.cls(roots[parts[0]]))
            ok = r in t
            for p in parts[1:]:
                f = next((f for f in st.fields if f.name == p), None) if st is not None else None
                ok = ok and f is not None
                st = f.struct if f is not None else None
            ctx.check(ok, 'L5', '%s reads %s, a field of the decoded structure' % (fi.name, r), key=('L5', 'controller-read', r),
                      site=ctx.site(fi, fi.node))
    ml = ctx.func('ikesacontroller.IkeSaController.main_loop')
    t = src(ml.node)
    ctx.check('if header.type == xfrm.XFRM_MSG_ACQUIRE:' in t and 'elif header.type == xfrm.XFRM_MSG_EXPIRE:' in t
              and 'self.process_acquire(msg, attributes)' in t and 'self.process_expire(msg)' in t, 'L5',
              'kernel events are dispatched on the netlink message type', key=('L5', 'dispatch'), site=ctx.site(ml, ml.node))


MANIFEST = {
    'level': 'Static decision of ABI agreement between two static artefacts: the natural-alignment layout (offset, size, byte order '
             'of every leaf field, total size) of each of the 17 ctypes mirrors equals that of the kernel structure parsed from the '
             'UAPI headers (<linux/xfrm.h>, <linux/netlink.h>, vendored copy cross-checked with the system copy); ~70 numeric '
             'constants equal the header enums/defines; each request builder feeds every kernel field from the like-oriented '
             'parameter (selector incl. masks tied to their port, id, addresses, families, lifetimes evaluated for several values, '
             'algorithm name/key length/key, message type and flags); framing lengths and the absence of alignment padding follow '
             'from the computed sizes; reply error/ack semantics evaluated; event registries and the fields the controller reads.',
    'note': 'Trusted: LP64 natural alignment as the target ABI, the header reader for the C subset these headers use. Declined: what '
            'the running kernel does; decoding real socket bytes.',
    'technique': 'layout computation of ctypes mirrors vs parsed C declarations + constant tables + keyword orientation checks',
    'design_ref': 'DESIGN.md 3/C14',
}
