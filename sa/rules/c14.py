"""C14 - Netlink/XFRM requests are byte-exact for the kernel ABI and say what was meant.

L1 (A10) every ctypes mirror has the layout of the kernel structure it stands for: field count, offsets,
         sizes, total size and byte order, computed for both descriptions under the LP64 natural-alignment
         rules (oracle: <linux/xfrm.h>, <linux/netlink.h>).
L2       message types, attribute types, policy directions, modes, multicast groups, netlink flags and
         types equal the header's values.
L3 (A5)  every request builder feeds each kernel field from the like-oriented parameter (selector, id,
         addresses, family, masks tied to their port, lifetimes, algorithm name / key length / key bytes,
         message type and flags).
L4 (A6)  framing: nlmsghdr.length, attribute length, alignment needs (computed from L1's sizes), reply
         handling (error <=> NLMSG_ERROR with non-zero code; ack is success).
L5       event decoding: payload/attribute registries pair each message with the mirror of the structure
         the kernel sends; parse copies min(len, sizeof); the controller reads fields that exist.
"""
import ast

from ..model import AnalysisError, src, walk_no_nested
from ..sval import NONE, const, norm_pc, same, strip_ids
from ..terms import callee_name
from ..uapi import Headers, py_layout
from .. import tq
from . import common

EXPLANATION = ('static analysis: natural-alignment layout of 17 ctypes mirrors compared leaf by leaf with the layout of the '
               'kernel structures parsed from the UAPI headers, ~70 numeric constants against the header enums/defines, '
               'keyword-argument orientation of the five request builders, and framing arithmetic derived from the computed sizes')
ASSUMPTIONS = [
    'target ABI is x86-64 / LP64 (natural alignment, 8-octet __u64 alignment); little-endian host for native fields',
    'kernel replies to our own requests are well-formed (the reply loop has no progress fact for nlmsg_len == 0)',
    'declined: what the running kernel does with a request; decoding actual socket bytes',
]

PAIRS = [('xfrm.XfrmAddress', 'xfrm_address_t'), ('xfrm.XfrmSelector', 'xfrm_selector'), ('xfrm.XfrmId', 'xfrm_id'),
         ('xfrm.XfrmLifetimeCfg', 'xfrm_lifetime_cfg'), ('xfrm.XfrmLifetimeCur', 'xfrm_lifetime_cur'),
         ('xfrm.XfrmStats', 'xfrm_stats'), ('xfrm.XfrmUserSaInfo', 'xfrm_usersa_info'), ('xfrm.XfrmUserSaId', 'xfrm_usersa_id'),
         ('xfrm.XfrmUserTmpl', 'xfrm_user_tmpl'), ('xfrm.XfrmUserPolicyInfo', 'xfrm_userpolicy_info'),
         ('xfrm.XfrmUserPolicyId', 'xfrm_userpolicy_id'), ('xfrm.XfrmUserAcquire', 'xfrm_user_acquire'),
         ('xfrm.XfrmUserExpire', 'xfrm_user_expire'), ('xfrm.XfrmUserSaFlush', 'xfrm_usersa_flush'),
         ('xfrm.XfrmAlgo', 'xfrm_algo'), ('netlink.NetlinkHeader', 'nlmsghdr'), ('netlink.NetlinkErrorMsg', 'nlmsgerr')]
# mirror fields that are declared native although the kernel field is network order, because the builders only ever
# store the byte-order-invariant constants 0 / 0xFFFF in them (checked at the store sites by L3)
# frozen spelling differences between mirror and kernel field names (read and confirmed one by one)
NAME_ALIASES = {('addr', 'a6'), ('soft_packed_limit', 'soft_packet_limit'), ('key', 'alg_key'), ('length', 'nlmsg_len'),
                ('type', 'nlmsg_type'), ('flags', 'nlmsg_flags'), ('seq', 'nlmsg_seq'), ('pid', 'nlmsg_pid'), ('cur', 'curlft'),
                ('selector', 'sel')}
ORDER_INVARIANT = {('xfrm_selector', 'dport_mask'), ('xfrm_selector', 'sport_mask')}


def leaves(st, base=0, path=''):
    out = []
    for f in st.fields:
        if f.struct is not None and f.count is None:
            out += leaves(f.struct, base + f.offset, path + f.name + '.')
        else:
            out.append((path + f.name, base + f.offset, f.size, f.order))
    return out


def signs(st, path=''):
    out = {}
    for f in st.fields:
        if f.struct is not None and f.count is None:
            out.update(signs(f.struct, path + f.name + '.'))
        else:
            out[path + f.name] = f.signed
    return out


def check_layouts(ctx, H, rule='L1', only=None, floor=140):
    """every ctypes mirror has the size, field offsets, widths, names, byte order and (where the daemon decodes the field) signedness
    of the kernel structure in the vendored UAPI headers"""
    prog = ctx.prog
    nfields = 0
    sizes = {}
    read_attrs = {x.attr for m in prog.modules.values() for x in ast.walk(m.tree)
                  if isinstance(x, ast.Attribute) and isinstance(x.ctx, ast.Load)}
    for pyq, cname in PAIRS:
        if only is not None and pyq not in only:
            continue
        cls = prog.cls(pyq)
        ctx.require(cname in H.structs, 'UAPI reader did not find struct %s' % cname)
        ps, cs = py_layout(prog, cls), H.structs[cname]
        sizes[pyq] = ps.size
        pl, cl = leaves(ps), leaves(cs)
        psg, csg = signs(ps), signs(cs)
        flex = cname == 'xfrm_algo'
        if flex:
            # variable-length key: compare the fixed part; the mirror's fixed-size key array starts where alg_key[] starts
            ctx.check(len(pl) == 3 and len(cl) == 3 and pl[2][1] == cl[2][1] == 68, rule, 'XfrmAlgo: the key starts at offset 68 '
                      '(alg_key[] of struct xfrm_algo)', key=(rule, pyq, 'key-offset'))
            pl, cl = pl[:2], cl[:2]
        else:
            ctx.check(ps.size == cs.size, rule, '%s has the size of struct %s (%d octets)' % (cls.name, cname, cs.size),
                      key=(rule, pyq, 'size'), detail={'mirror': ps.size, 'kernel': cs.size})
        ctx.check(len(pl) == len(cl), rule, '%s has as many leaf fields as struct %s (%d)' % (cls.name, cname, len(cl)),
                  key=(rule, pyq, 'count'), detail={'mirror': [p[0] for p in pl], 'kernel': [c[0] for c in cl]})
        for (pn, po, psz, pord), (cn, co, csz, cord) in zip(pl, cl):
            nfields += 1
            ctx.check((po, psz) == (co, csz), rule, '%s.%s sits at offset %d with %d octets like %s.%s' % (cls.name, pn, co, csz, cname, cn),
                      key=(rule, pyq, 'field', cn), detail={'mirror': (pn, po, psz), 'kernel': (cn, co, csz)})
            leaf = cn.split('.')[-1]
            pparts, cparts = pn.split('.'), cn.split('.')
            same = len(pparts) == len(cparts) and all(a == b or (a, b) in NAME_ALIASES for a, b in zip(pparts, cparts))
            ctx.check(same, rule, '%s.%s is the mirror of %s.%s (same field name, so same-width neighbours are not swapped)' % (
                cls.name, pn, cname, cn), key=(rule, pyq, 'name', cn), detail={'mirror': pn, 'kernel': cn})
            if psg.get(pn) is not None and csg.get(cn) is not None and (psg[pn] == csg[cn] or pn.split('.')[-1] in read_attrs):
                # the sign matters where the daemon decodes the field: a mirror field that is only ever written with non-negative
                # constants produces the same octets either way
                ctx.check(psg[pn] == csg[cn], rule, '%s.%s is %s like the kernel field (a negative errno, priority or offset reads back as '
                          'such)' % (cls.name, pn, 'signed' if csg[cn] else 'unsigned'), key=(rule, pyq, 'sign', cn),
                          detail={'mirror signed': psg[pn], 'kernel signed': csg[cn]})
            if cord == 'B':
                inv = any(leaf == f for (_, f) in ORDER_INVARIANT)
                ok = pord in ('B', '-') or inv
                ctx.check(ok, rule, '%s.%s is network byte order like the kernel field (big-endian type or byte array%s)' % (
                    cls.name, pn, ', or only byte-order-invariant constants' if inv else ''), key=(rule, pyq, 'order', cn),
                    detail={'mirror order': pord})
            elif cord == 'N':
                ctx.check(pord == 'N', rule, '%s.%s is host byte order like the kernel field' % (cls.name, pn),
                          key=(rule, pyq, 'order', cn), detail={'mirror order': pord})
    ctx.floor('%s leaf fields compared' % rule, nfields, floor)
    return sizes



def run(ctx):
    prog, res = ctx.prog, ctx.res
    H = Headers()
    for n in H.notes:
        ctx.note(n)
    ctx.stats['UAPI oracle digests'] = H.digests

    # ---------------------------------------------------------------- L1
    sizes = check_layouts(ctx, H)

    # ---------------------------------------------------------------- L2
    ncons = 0
    for mname in ('xfrm', 'netlink'):
        m = prog.module(mname)
        for name, val in m.consts.items():
            if not (name.startswith(('XFRM', 'NLM')) and name.isupper()):
                continue
            try:
                v = prog.const_eval(val, m)
            except AnalysisError:
                continue
            if name in H.consts:
                ncons += 1
                ctx.check(v == H.consts[name], 'L2', '%s.%s = %d as in the kernel header' % (mname, name, H.consts[name]),
                          key=('L2', mname, name), detail={'found': v})
            else:
                ctx.note('constant %s.%s = %s has no literal counterpart in the vendored headers (not checked)' % (mname, name, v))
    ctx.floor('L2 constants compared with the headers', ncons, 55)
    mode = prog.enum_members('xfrm.Mode')
    ctx.check(mode == {'TRANSPORT': H.consts['XFRM_MODE_TRANSPORT'], 'TUNNEL': H.consts['XFRM_MODE_TUNNEL']}, 'L2',
              'xfrm.Mode members are XFRM_MODE_TRANSPORT / XFRM_MODE_TUNNEL', key=('L2', 'Mode'), detail={'found': mode})
    xs = ctx.func('xfrm.Xfrm.get_socket')
    XS = ctx.sval(xs)
    ctx.check(tq.match(XS.expr('cls._get_socket(XFRMGRP_ACQUIRE | XFRMGRP_EXPIRE)'), XS.ret()) is not None, 'L2',
              'the event socket subscribes to the ACQUIRE and EXPIRE groups', key=('L2', 'groups'), site=ctx.site(xs, xs.node),
              detail={'returned': tq.text(XS.ret())})
    fam = prog.cls('xfrm.Xfrm').lookup_attr('netlink_family')
    ctx.check(fam is not None and src(fam) == 'socket.NETLINK_XFRM', 'L2', 'netlink family is NETLINK_XFRM', key=('L2', 'family'))

    # ---------------------------------------------------------------- L3
    common.create_sa_orientation(ctx, 'L3')
    check_lifetimes(ctx)
    check_policy_builder(ctx)
    check_delete_flush(ctx)
    check_algo(ctx)
    fa = ctx.func('xfrm.XfrmAddress.from_ipaddr')
    F = ctx.sval(fa)
    ip = fa.call_params()[0]
    res_t = F.ret()
    packed = ('attr', ('param', ip), 'packed')
    is6 = strip_ids(F.mk_cmp('==', ('attr', ('param', ip), 'version'), const(6)))
    is4 = strip_ids(F.mk_cmp('==', ('attr', ('param', ip), 'version'), const(4)))

    def word_map(v6):
        """{word index: (byte offset in the packed address, width, byte order)} written into result.addr for an IPv6 / IPv4 address;
        None when a store is not of a recognised form"""
        def decide(t):
            t = strip_ids(t)
            if t == is6:
                return v6
            if t == is4:
                return not v6
            return None

        def fields(u):
            if not (tq.is_call(u) and u[1] in ('struct.unpack_from', 'struct.unpack')):
                return None
            a = [tq.restrict(x, decide) for x in tq.args(u).values()]
            if not a or a[0][0] != 'const' or not isinstance(a[0][2], str) or len(a) < 2:
                return None
            if strip_ids(a[1]) != packed:
                wrong.append(tq.text(a[1], 200))        # an unpack of something other than the octets of the address handed in
                return None
            off = a[2][2] if len(a) > 2 and a[2][0] == 'const' else 0
            fmt = a[0][2]
            if fmt[:1] not in ('>', '!'):
                return None
            import re as _re
            import struct as _st
            out, o = [], 0
            for cnt, ch in _re.findall(r'(\d*)([IiLl])', fmt[1:]):
                for _ in range(int(cnt) if cnt else 1):
                    out.append((off + o, _st.calcsize('>' + ch), 'B'))
                    o += _st.calcsize('>' + ch)
            return out if _st.calcsize(fmt) == o else None
        m = {}
        for t, v, pc, _, _ in F.stores:
            base = strip_ids(t[1]) if t[0] == 'index' else None
            if base is not None and base[0] == 'acc':
                # a local alias of result.addr that a loop writes through: what it held when the loop was entered
                inits = [strip_ids(i_[base[1]]) for i_ in F.loop_inits.values() if base[1] in i_]
                base = inits[0] if len(inits) == 1 else base
            if not (t[0] == 'index' and base == strip_ids(('attr', res_t, 'addr'))):
                continue
            holds = True
            for a_ in strip_ids(pc):
                d_ = decide(a_[0])
                if d_ is None:
                    return None
                holds = holds and (d_ == a_[1])
            if not holds:
                continue
            k, val = strip_ids(t[2]), strip_ids(tq.restrict(v, decide))
            if k[0] == 'const' and val[0] == 'index' and val[2][0] == 'const':
                fs = fields(val[1])
                if fs is None or not (0 <= val[2][2] < len(fs)):
                    return None
                m[k[2]] = fs[val[2][2]]
            elif k[0] == 'idx' and strip_ids(v) == ('elem', k[1], 0):
                fs = fields(tq.restrict(k[1], decide))       # for position, word in enumerate(unpack(..)): addr[position] = word
                if fs is None:
                    return None
                for n_, f_ in enumerate(fs):
                    m[n_] = f_
            else:
                return None
        return m
    wrong = []
    m6, m4 = word_map(True), word_map(False)
    if wrong:
        ctx.bad('L3', ('L3', 'from-ipaddr', 'source'), 'XfrmAddress.from_ipaddr: the words of the kernel address are unpacked from the packed '
                'octets of the address object it is given, and from nothing else (found: %s)' % wrong[0], ctx.site(fa, fa.node),
                {'unpacked from': wrong})
    elif m6 is None or m4 is None or not tq.is_call(res_t, 'new xfrm.XfrmAddress'):
        ctx.unrecognised('L3', 'XfrmAddress.from_ipaddr does not fill result.addr[..] from struct.unpack*(<big-endian format>, ip.packed[, offset])',
                         ctx.site(fa, fa.node))
    else:
        ctx.check(m6 == {k: (4 * k, 4, 'B') for k in range(4)} and m4 == {0: (0, 4, 'B')}, 'L3',
                  'XfrmAddress.from_ipaddr stores the packed address in network order (IPv4 in the first word, the other three '
                  'words for IPv6)', key=('L3', 'from-ipaddr'), site=ctx.site(fa, fa.node), detail={'IPv6 words': m6, 'IPv4 words': m4})
    ta = ctx.func('xfrm.XfrmAddress.to_ipaddr')
    T = ctx.sval(ta)
    r = T.ret()
    arg = tq.args(r).get('#0') if tq.is_call(r, 'ipaddress.ip_address') else None
    vals = None
    if arg is not None:
        def leaf(t):
            if tq.is_call(t, 'builtins.bytes') and tq.args(t).get('#0') == ('attr', ('param', 'self'), 'addr'):
                return b'0123456789abcdef'
            raise tq.NoValue()
        vals = []
        for famv in ('AF_INET', 'AF_INET6'):
            def leaf2(t, famv=famv):
                if t == ('param', ta.call_params()[0]):
                    return famv
                if t[0] == 'global' and t[1] in common.AF:
                    return common.AF[t[1]]
                if t[0] == 'slice' and t[2] == ('const', 'NoneType', None) and t[3][0] == 'const':
                    return tq.teval(t[1], leaf2)[:t[3][2]]
                return leaf(t)
            try:
                vals.append(len(tq.teval(arg, leaf2)))
            except (tq.NoValue, Exception):
                vals.append(None)
    ctx.check(vals == [4, 16], 'L5', 'XfrmAddress.to_ipaddr reads 4 octets for AF_INET and 16 otherwise', key=('L5', 'to-ipaddr'),
              site=ctx.site(ta, ta.node), detail={'returned': tq.text(r)})

    # the selector octets of a negotiated CHILD_SA come from TrafficSelector.get_network() / get_port(): the network that covers the
    # negotiated range and the kernel's port convention
    from .c12 import ts_kernel_view
    ts_kernel_view(ctx, 'L3')

    # ---------------------------------------------------------------- L4
    check_framing(ctx, sizes)

    # ---------------------------------------------------------------- L5
    check_events(ctx, H)


M64 = 0xFFFFFFFFFFFFFFFF
WANT_INF = {'soft_byte_limit': M64, 'hard_byte_limit': M64, 'soft_packed_limit': M64, 'hard_packet_limit': M64,
            'soft_add_expires_seconds': 0, 'hard_add_expires_seconds': 0, 'soft_use_expires_seconds': 0,
            'hard_use_expires_seconds': 0}


def lft_values(ctx, fi, term, case):
    """field values of an XfrmLifetimeCfg(...) term for the given parameter values; infinite() is looked through"""
    inf = ctx.func('xfrm.XfrmLifetimeCfg.infinite')

    def fields(t):
        if tq.is_call(t, 'xfrm.XfrmLifetimeCfg.infinite'):
            return fields(ctx.sval(inf).ret())
        if tq.is_call(t, 'new xfrm.XfrmLifetimeCfg'):
            out = {}
            for k, v in tq.args(t).items():
                vals = common.term_table(ctx, v, [dict(case, **{'xfrm.XFRM_INF': M64})], None)
                if vals is None:
                    sv = ctx.sval(fi)
                    vv = sv.value_of(v)
                    vals = [vv] if not isinstance(vv, object().__class__) or isinstance(vv, int) else None
                out[k] = vals[0] if vals else None
            return out
        if t[0] == 'cond':
            c = common.term_table(ctx, t[1], [case], None)
            if c is None:
                return None
            return fields(t[2] if c[0] else t[3])
        return None
    return fields(term)


def check_lifetimes(ctx):
    inf = ctx.func('xfrm.XfrmLifetimeCfg.infinite')
    ctx.check(lft_values(ctx, inf, ctx.sval(inf).ret(), {}) == WANT_INF, 'L3',
              'XfrmLifetimeCfg.infinite(): all byte/packet limits XFRM_INF, all time limits 0', key=('L3', 'lft-infinite'),
              site=ctx.site(inf, inf.node), detail={'returned': tq.text(ctx.sval(inf).ret())})
    cs = ctx.func('xfrm.Xfrm.create_sa')
    S = ctx.sval(cs)
    sr = S.calls_to(qual='netlink.NetlinkProtocol.send_recv')
    us = sr[0].args.get('payload', NONE) if len(sr) == 1 else NONE
    lft = tq.args(us).get('lft') if tq.is_call(us, 'new xfrm.XfrmUserSaInfo') else None
    ok = lft is not None
    if ok:
        for L in (-1, -5):
            ok = ok and lft_values(ctx, cs, lft, {'lifetime': L}) == WANT_INF
        for L in (0, 1, 60, 300):
            ok = ok and lft_values(ctx, cs, lft, {'lifetime': L}) == dict(WANT_INF, soft_add_expires_seconds=L, hard_add_expires_seconds=L + 10)
    ctx.check(ok, 'L3', 'create_sa lifetimes: negative -> infinite; otherwise soft = lifetime and hard = lifetime + 10 seconds after '
              'creation, no byte/packet/use limits', key=('L3', 'lft-sa'), site=ctx.site(cs, cs.node),
              detail={'lft': tq.text(lft, 500) if lft is not None else None})


def check_policy_builder(ctx, rule='L3'):
    fi = ctx.func('xfrm.Xfrm.create_policy')
    S = ctx.sval(fi)
    site = ctx.site(fi, fi.node)
    sr = common.one_send(ctx, rule, fi, 'NEWPOLICY', 'create_policy')
    if sr is None:
        return
    pol = sr.args.get('payload', NONE)
    ok = tq.is_call(pol, 'new xfrm.XfrmUserPolicyInfo')
    ctx.check(ok, rule, 'create_policy builds one xfrm_userpolicy_info and sends it', key=(rule, 'policy'), site=site)
    if not ok:
        return
    kw = tq.args(pol)
    common.selector_orientation(ctx, rule, fi, kw.get('sel', NONE), 'create_policy')
    want = {'dir': 'direction', 'index': 'index', 'action': 'XFRM_POLICY_ALLOW'}
    for k, v in want.items():
        common.expect_term(ctx, rule, S, kw.get(k), v, 'create_policy: %s = %s' % (k, v), (rule, 'create_policy', k), site)
    ctx.check(kw.get('lft') is not None and lft_values(ctx, fi, kw['lft'], {}) == WANT_INF, rule, 'create_policy: the policy never expires',
              key=(rule, 'create_policy', 'lft'), site=site)
    ctx.check(set(kw) == set(want) | {'sel', 'lft'}, rule, 'create_policy sets no other policy field', key=(rule, 'create_policy', 'extra'),
              site=site, detail={'found': sorted(kw)})
    at = sr.args.get('attributes', NONE)
    ents = [e for e in at[1]] if at[0] == 'dict' else []
    ok = len(ents) == 1 and len(ents[0]) == 2 and tq.text(ents[0][0]).endswith('XFRMA_TMPL') and tq.is_call(ents[0][1], 'new xfrm.XfrmUserTmpl')
    ctx.check(ok, rule, 'create_policy attaches exactly one template as XFRMA_TMPL', key=(rule, 'tmpl'), site=site,
              detail={'attributes': tq.text(at, 400)})
    if ok:
        tk = tq.args(ents[0][1])
        common.expect_term(ctx, rule, S, tk.get('id'), 'XfrmId(daddr=XfrmAddress.from_ipaddr(dst), proto=ipsec_proto)',
                           'template id: tunnel destination and IPsec protocol (SPI 0 = any)', (rule, 'tmpl-id'), site)
        ctx.check(tk.get('id') is not None and tq.is_call(tk['id']) and set(tq.args(tk['id'])) == {'daddr', 'proto'}, rule,
                  'template id: no SPI is set', key=(rule, 'tmpl-id-extra'), site=site)
        ctx.check(tk.get('family') is not None and common.family_ok(ctx, tk['family'], 'src'), rule,
                  'template: family follows the tunnel endpoint\'s IP version', key=(rule, 'tmpl', 'family'), site=site)
        for k, v in (('saddr', 'XfrmAddress.from_ipaddr(src)'), ('mode', 'mode'), ('aalgos', '4294967295'), ('ealgos', '4294967295'),
                     ('calgos', '4294967295')):
            common.expect_term(ctx, rule, S, tk.get(k), v, 'template: %s = %s' % (k, v), (rule, 'tmpl', k), site)


def check_delete_flush(ctx):
    fi = ctx.func('xfrm.Xfrm.delete_sa')
    S = ctx.sval(fi)
    ps = fi.call_params()
    sr = common.one_send(ctx, 'L3', fi, 'DELSA', 'delete_sa')
    pl = sr.args.get('payload', NONE) if sr is not None else NONE
    ok = tq.is_call(pl, 'new xfrm.XfrmUserSaId')
    if ok:
        kw = tq.args(pl)
        ok = set(kw) == {'daddr', 'proto', 'spi', 'family'} \
            and tq.match(S.expr('XfrmAddress.from_ipaddr(%s)' % ps[0]), kw['daddr']) is not None and kw['proto'] == ('param', ps[1]) \
            and tq.match(S.expr('create_byte_array(%s)' % ps[2]), kw['spi']) is not None and common.family_ok(ctx, kw['family'], ps[0])
    ctx.check(ok, 'L3', 'delete_sa identifies the SA by (destination address, its family, protocol, SPI)', key=('L3', 'delete-id'),
              site=ctx.site(fi, fi.node), detail={'payload': tq.text(pl, 400)})
    for name, msg in (('flush_policies', 'FLUSHPOLICY'), ('flush_sas', 'FLUSHSA')):
        f = ctx.func('xfrm.Xfrm.' + name)
        sr = common.one_send(ctx, 'L3', f, msg, name)
        pl = sr.args.get('payload', NONE) if sr is not None else NONE
        ok = tq.is_call(pl, 'new xfrm.XfrmUserSaFlush') and tq.args(pl) in ({'proto': const(0)}, {})
        ctx.check(ok, 'L3', '%s flushes every protocol (proto = 0)' % name, key=('L3', name), site=ctx.site(f, f.node),
                  detail={'payload': tq.text(pl)})


def check_algo(ctx, rule='L3'):
    fi = ctx.func('xfrm.XfrmAlgo.build')
    S = ctx.sval(fi)
    ps = fi.call_params()
    r = S.ret()
    ok = tq.is_call(r, 'new xfrm.XfrmAlgo')
    if ok:
        kw = tq.args(r)
        ok = set(kw) == {'alg_name', 'alg_key_len', 'key'} \
            and tq.match(S.expr('create_byte_array(%s, 64)' % ps[0]), kw['alg_name']) is not None \
            and tq.match(S.expr('create_byte_array(%s, 64)' % ps[1]), kw['key']) is not None \
            and common.term_table(ctx, kw['alg_key_len'], [{ps[1]: b'k' * 16}, {ps[1]: b'k' * 20}], None) == [128, 160]
    ctx.check(ok, rule, 'XfrmAlgo.build: zero-padded 64-octet name, key length in bits, key bytes at the start of the key array',
              key=(rule, 'algo-build'), site=ctx.site(fi, fi.node), detail={'returned': tq.text(r, 400)})
    cb = ctx.prog.functions.get('xfrm.create_byte_array')
    ctx.require(cb is not None, 'anchor vanished: create_byte_array')
    B = ctx.sval(cb)
    r = B.ret()
    cps = cb.call_params()
    ok = r[0] == 'call' and isinstance(r[1], tuple) and r[1][0] == 'dyn' and tq.args(r).get('#0') == ('star', ('param', cps[0]))
    if ok:
        ty = r[1][1]
        ok = ty[0] == 'bin' and ty[1] == '*' and ('global', 'ctypes.c_ubyte') in ty[2:]
        n = [x for x in ty[2:] if x != ('global', 'ctypes.c_ubyte')]
        ok = ok and len(n) == 1 and common.term_table(ctx, n[0], [{cps[0]: b'abc', cps[1]: None}, {cps[0]: b'abc', cps[1]: 64}], None) == [3, 64]
    ctx.check(ok, rule, 'create_byte_array copies the bytes into an array of the given size (zero filled; the data length by default)',
              key=(rule, 'byte-array'), site=ctx.site(cb, cb.node), detail={'returned': tq.text(r)})


WIN = ('acc', '<window>', 0)      # the unconsumed rest of a buffer that a loop walks


def window_view(sv):
    """A loop that walks a buffer either re-slices it (`data = data[n:]`, reading at the front) or keeps a cursor (`offset += n`, reading
    at `offset`).  Both are brought to one form in which reads are relative to the unconsumed rest WIN: returns (rewrite, advance) where
    rewrite(term) expresses a term of the loop body relative to WIN and advance is the amount consumed per iteration - or None when the
    function has no such loop."""
    for lid, ups in sv.loop_updates.items():
        for k, v in ups.items():
            v = strip_ids(v)
            acc = ('acc', k, 0)
            if v[0] == 'slice' and v[1] == acc and v[3] == NONE and v[4] == NONE:
                n = v[2]

                def rw(t, acc=acc):
                    t = strip_ids(t)
                    if t == acc:
                        return WIN
                    return tuple(rw(x) if isinstance(x, tuple) else x for x in t) if isinstance(t, tuple) and t[:1] != ('const',) else t
                return rw, rw(n)
            if v[0] == 'add' and acc in v[1] and strip_ids(sv.loop_inits.get(lid, {}).get(k, NONE)) == const(0):
                rest = tuple(x for x in v[1] if x != acc)
                n = rest[0] if len(rest) == 1 else ('add', rest)
                # the buffer: whatever is read at the cursor
                bufs = set()
                for c in sv.calls:
                    if c.lib == 'struct.unpack_from' and strip_ids(c.args.get('#2', NONE)) == acc:
                        bufs.add(strip_ids(c.args.get('#1', NONE)))
                for x in tq.find(strip_ids(v), lambda y: False):
                    pass
                if len(bufs) != 1:
                    sl = [strip_ids(x) for t_ in [c.term for c in sv.calls] for x in tq.find(t_, lambda y: y[0] == 'slice' and acc in (
                        strip_ids(y[2]),) or (y[0] == 'slice' and strip_ids(y[2])[0] == 'add' and acc in strip_ids(y[2])[1]))]
                    bufs |= {x[1] for x in sl}
                if len(bufs) != 1:
                    continue
                buf = bufs.pop()

                def minus(t, acc=acc):
                    """t - cursor when t is cursor [+ something], else None"""
                    if t == acc:
                        return const(0)
                    if t[0] == 'add' and acc in t[1]:
                        r_ = tuple(x for x in t[1] if x != acc)
                        return r_[0] if len(r_) == 1 else ('add', r_)
                    return None

                def rw(t, acc=acc, buf=buf):
                    t = strip_ids(t)
                    if not isinstance(t, tuple) or t[:1] == ('const',):
                        return t
                    if t[0] == 'slice' and t[1] == buf and t[4] == NONE:
                        lo = minus(t[2])
                        hi = NONE if t[3] == NONE else minus(t[3])
                        if lo is not None and hi is not None:
                            if lo == const(0) and hi == NONE:
                                return WIN
                            return ('slice', WIN, rw(lo), hi if hi == NONE else rw(hi), NONE)
                    if t[0] == 'call' and t[1] == 'struct.unpack_from' and dict(t[3]).get('#1') == buf and dict(t[3]).get('#2') == acc:
                        return ('call', t[1], t[2], tuple((a, (WIN if a == '#1' else rw(x))) for a, x in t[3] if a != '#2'))
                    if t[0] == 'bin' and t[1] == '-' and t[3] == acc and t[2] == ('call', 'builtins.len', NONE, (('#0', buf),)):
                        return ('call', 'builtins.len', NONE, (('#0', WIN),))
                    return tuple(rw(x) if isinstance(x, tuple) else x for x in t)
                return rw, rw(n)
    return None


def check_framing(ctx, sizes, rule='L4'):
    sr = ctx.func('netlink.NetlinkProtocol.send_recv')
    S = ctx.sval(sr)
    ps = sr.call_params()
    site = ctx.site(sr, sr.node)
    snd = S.calls_to(callee='method.send')
    wire = tq.args(snd[0].term).get('#0') if len(snd) == 1 else None
    parts = list(wire[1]) if wire is not None and wire[0] == 'add' else []
    hdr = tq.args(parts[0]).get('#0') if parts and tq.is_call(parts[0], 'builtins.bytes') else None
    ok = hdr is not None and tq.is_call(hdr, 'new netlink.NetlinkHeader')
    body = tuple(parts[1:])
    if ok:
        kw = tq.args(hdr)
        blen = ('call', 'builtins.len', NONE, (('#0', strip_ids(body[0] if len(body) == 1 else ('add', body))),))
        want_len = strip_ids(S.expr('sizeof(NetlinkHeader)'))
        ln = strip_ids(kw.get('length', NONE))
        ok = ln[0] == 'add' and set(ln[1]) == {want_len, blen} and kw.get('type') == ('param', ps[0]) and kw.get('flags') == ('param', ps[1]) \
            and 'seq' in kw and tq.match(S.expr('os.getpid()'), kw.get('pid', NONE)) is not None
    ctx.check(ok, rule, 'nlmsghdr: length = header size + length of everything that follows it on the wire, type and flags as requested',
              key=(rule, 'header'), site=site, detail={'header': tq.text(hdr, 500) if hdr is not None else None})
    ok = len(body) == 2 and (tq.match(S.expr('bytearray(%s)' % ps[2]), body[0]) is not None or
                             tq.match(S.expr('bytes(%s)' % ps[2]), body[0]) is not None)
    if ok:
        it = body[1]
        cond = ()
        if it[0] == 'when':
            cond, it = it[1], it[2]
        # the table iterated is the `attributes` argument (or nothing when it is empty / None: `(attributes or {}).items()`)
        table_ok = it[0] == 'sum' and tq.is_call(it[2], 'method.items') and (
            it[2][2] == ('param', ps[3]) or (it[2][2][0] == 'or' and tuple(it[2][2][1]) == (('param', ps[3]), ('dict', ()))))
        ok = table_ok and tq.is_call(it[3], 'builtins.bytes') \
            and tq.is_call(tq.args(it[3]).get('#0', NONE), 'netlink.NetlinkProtocol._attribute_factory') \
            and all(a[0] == ('param', ps[3]) and a[1] for a in cond)
        if ok:
            fa = tq.args(tq.args(it[3])['#0'])
            ok = strip_ids(fa.get('code', NONE))[0] == 'key' and strip_ids(fa.get('data', NONE))[0] == 'value'
    ctx.check(ok, rule, 'the request is header | payload structure | one attribute per entry of `attributes` (type = key, data = value)',
              key=(rule, 'order'), site=site, detail={'sent': tq.text(wire, 600) if wire is not None else None})
    af = ctx.func('netlink.NetlinkProtocol._attribute_factory')
    A = ctx.sval(af)
    r = A.ret()
    aps = af.call_params()
    ok = r[0] == 'call' and tq.args(r).get('code') == ('param', aps[0]) and tq.args(r).get('data') == ('param', aps[1])
    lc = None
    if ok:
        ln = tq.args(r).get('len', NONE)
        lc = tq.args(ln).get('#0') if tq.is_call(ln, 'ctypes.sizeof') else None
        ok = lc is not None and lc[0] == 'localclass'
    if ok:
        fields = dict(lc[2]).get('_fields_')
        names = [tq.text(f[1][0]) + ':' + tq.text(f[1][1]) for f in fields[1]] if fields is not None and fields[0] == 'tuple' else []
        ok = names == ["'len':ctypes.c_uint16", "'code':ctypes.c_uint16", "'data':builtins.type(%s)" % aps[1]]
    ctx.check(ok, rule, 'attribute = nla_len (size of header + data), nla_type, data - both header fields 16-bit host order',
              key=(rule, 'attribute'), site=ctx.site(af, af.node), detail={'returned': tq.text(r, 500)})
    # alignment: every payload struct that is followed by attributes, and every attribute payload, is a multiple of 4
    for q in ('xfrm.XfrmUserSaInfo', 'xfrm.XfrmUserPolicyInfo', 'xfrm.XfrmAlgo', 'xfrm.XfrmUserTmpl'):
        ctx.check(sizes[q] % 4 == 0, rule, '%s is %d octets, a multiple of 4: no NLMSG_ALIGN / NLA_ALIGN padding is needed after it' % (
            q.split('.')[-1], sizes[q]), key=(rule, 'align', q))
    ctx.check(sizes['netlink.NetlinkHeader'] == 16, rule, 'NLMSG_HDRLEN is 16', key=(rule, 'hdrlen'))
    # reply handling: the condition under which NetlinkError is raised, evaluated
    rs = [(pc, t) for pc, t, _ in S.raises if tq.is_call(t, 'new netlink.NetlinkError')]
    ok = len(rs) == 1
    if ok:
        # (the loop test - something is left in the buffer - says nothing about the message parsed)
        atoms = [a for a in rs[0][0] if tq.find_calls(a[0], 'netlink.NetlinkProtocol.parse_message')]
        msgs = {strip_ids(x) for a in atoms for x in tq.find_calls(a[0], 'netlink.NetlinkProtocol.parse_message')}
        ok = len(msgs) == 1
        if ok:
            pm = msgs.pop()
            for ty, err, want in ((2, -1, True), (2, 0, False), (2, -17, True), (3, -1, False), (16, 5, False)):
                def leaf(t, ty=ty, err=err):
                    t = strip_ids(t)
                    if t == ('attr', ('index', pm, const(0)), 'type'):
                        return ty
                    if t == ('attr', ('index', pm, const(1)), 'error'):
                        return err
                    if t[0] == 'global' and t[1].endswith('NLMSG_ERROR'):
                        return 2
                    if t[0] == 'global' and t[1].endswith('NLMSG_DONE'):
                        return 3
                    raise tq.NoValue()
                try:
                    v = all(bool(tq.teval(a[0], leaf)) == a[1] for a in atoms)
                except (tq.NoValue, Exception):
                    v = None
                ok = ok and v is want
    ctx.check(ok, rule, 'a reply raises NetlinkError exactly when it is NLMSG_ERROR with a non-zero code; an ack (code 0) is success',
              key=(rule, 'reply-error'), site=site)
    # the reply buffer advances by nlmsg_len of the message just parsed
    wv = window_view(S)
    ok = wv is not None
    if ok:
        rw, adv = wv
        # ... by the nlmsg_len of the message parsed at the front of what is left
        ok = adv[0] == 'attr' and adv[2] == 'length' and adv[1][0] == 'index' and adv[1][2] == const(0) \
            and tq.is_call(adv[1][1], 'netlink.NetlinkProtocol.parse_message') and list(tq.args(adv[1][1]).values()) == [WIN]
    ctx.check(ok, rule, 'the reply buffer is consumed message by message using nlmsg_len', key=(rule, 'reply-advance'), site=site)
    ds = ctx.func('xfrm.Xfrm.delete_sa')
    D = ctx.sval(ds)
    sends = D.calls_to(qual='netlink.NetlinkProtocol.send_recv')
    handled = [c for c in D.calls if any(a[0][0] == 'caught' and 'NetlinkError' in tq.text(a[0]) for a in c.pc)]
    ctx.check(len(sends) == 1 and bool(handled) and not D.raises, rule,
              'delete_sa tolerates a kernel refusal (already gone) and reports it', key=(rule, 'delete-tolerant'), site=ctx.site(ds, ds.node))


def subterms_of(sv):
    from ..sval import subterms
    seen = []
    for env_pc, env in sv.exit_envs:
        for v in env.values():
            if isinstance(v, tuple):
                seen.extend(x for x in subterms(v) if isinstance(x, tuple) and x)
    for c in sv.calls:
        seen.extend(x for x in subterms(c.term) if isinstance(x, tuple) and x)
    for t, v, _, _, _ in sv.stores:
        seen.extend(x for x in subterms(v) if isinstance(x, tuple) and x)
    return seen


def registry(prog, cls, name):
    """entries of a class-level dict registry incl. `name.update({...})` statements in the class body"""
    out = {}
    for k in reversed(cls.mro()):
        v = k.attrs.get(name)
        if isinstance(v, ast.Dict):
            out = {src(a).split('.')[-1]: src(b).split('.')[-1] for a, b in zip(v.keys, v.values)} if k is not cls else dict(
                out, **{src(a).split('.')[-1]: src(b).split('.')[-1] for a, b in zip(v.keys, v.values)})
        elif isinstance(v, ast.Call) and isinstance(v.func, ast.Attribute) and v.func.attr == 'copy':
            pass
        for st in k.node.body:
            if isinstance(st, ast.Expr) and isinstance(st.value, ast.Call) and callee_name(st.value) == 'update' \
                    and src(st.value.func.value) == name and st.value.args and isinstance(st.value.args[0], ast.Dict):
                d = st.value.args[0]
                out.update({src(a).split('.')[-1]: src(b).split('.')[-1] for a, b in zip(d.keys, d.values)})
    return out


def check_events(ctx, H):
    prog = ctx.prog
    base = registry(prog, prog.cls('netlink.NetlinkProtocol'), 'payload_types')
    ctx.check(base == {'NLMSG_ERROR': 'NetlinkErrorMsg'}, 'L5', 'NLMSG_ERROR replies are decoded as nlmsgerr', key=('L5', 'error-payload'),
              detail={'found': base})
    x = prog.cls('xfrm.Xfrm')
    upd = registry(prog, x, 'payload_types')
    upd = {k: v for k, v in upd.items() if k not in base}
    ctx.check(upd == {'XFRM_MSG_ACQUIRE': 'XfrmUserAcquire', 'XFRM_MSG_EXPIRE': 'XfrmUserExpire', 'XFRM_MSG_NEWPOLICY': 'XfrmUserPolicyInfo'},
              'L5', 'ACQUIRE is decoded as xfrm_user_acquire, EXPIRE as xfrm_user_expire, NEWPOLICY as xfrm_userpolicy_info',
              key=('L5', 'payload-types'), detail={'found': upd})
    at = registry(prog, x, 'attribute_types')
    ctx.check(at == {'XFRMA_TMPL': 'XfrmUserTmpl'}, 'L5', 'the XFRMA_TMPL attribute is decoded as xfrm_user_tmpl', key=('L5', 'attribute-types'),
              detail={'found': at})
    ps = ctx.func('netlink.NetlinkStructure.parse')
    P = ctx.sval(ps)
    r = P.ret()
    mm = P.calls_to(callee='ctypes.memmove')
    dp = ps.call_params()[0]
    ok = r[0] == 'call' and r[2] == NONE and not tq.args(r) and len(mm) == 1 \
        and tq.match(P.expr('addressof(_)'), mm[0].args.get('#0', NONE)) is not None and tq.args(mm[0].args['#0']).get('#0') == r \
        and mm[0].args.get('#1') == ('param', dp)
    if ok:
        n = mm[0].args.get('#2', NONE)
        ok = tq.match(P.expr('min(len(%s), sizeof(cls))' % dp), n) is not None or tq.match(P.expr('min(sizeof(cls), len(%s))' % dp), n) is not None
    ctx.check(ok, 'L5', 'structure parsing copies min(len(data), sizeof) octets into a fresh (zeroed) instance and returns it',
              key=('L5', 'parse'), site=ctx.site(ps, ps.node), detail={'returned': tq.text(r)})
    pm = ctx.func('netlink.NetlinkProtocol.parse_message')
    M = ctx.sval(pm)
    d = pm.call_params()[0]
    hdr = M.expr('NetlinkHeader.parse(%s)' % d)
    # every return is (header, payload, attributes); the one that carries a payload is examined (an early return for NLMSG_DONE / an
    # unknown type hands back the header alone)
    rall = [strip_ids(t) for _, t, _ in M.returns]

    def tuples(t):
        return tuples(t[2]) + tuples(t[3]) if t[0] == 'cond' else [t]
    rall = [x for t in rall for x in tuples(t)]
    ok = bool(rall) and all(t[0] == 'tuple' and len(t[1]) == 3 and same(t[1][0], hdr) for t in rall)
    full = [t for t in rall if ok and t[1][1] != NONE]
    r = full[0] if full else (rall[0] if rall else NONE)
    ok = ok and bool(full)
    pay = att = None
    if ok:
        pays = [c for c in M.calls if c.name == 'parse' and tq.match(M.expr('cls.payload_types[_]'), c.recv or NONE) is not None]
        atts = M.calls_to(qual='netlink.NetlinkProtocol._parse_attributes')
        ok = len(pays) == 1 and len(atts) == 1
        if ok:
            pay, att = pays[0], atts[0]
            # the size of the fixed header: of the parsed header object or of its class
            hss = [strip_ids(M.expr('sizeof(NetlinkHeader.parse(%s))' % d)), strip_ids(M.expr('sizeof(NetlinkHeader)'))]
            p0 = strip_ids(list(pay.args.values())[0])
            ok = same(pay.recv, ('index', M.expr('cls.payload_types'), ('attr', hdr, 'type'))) \
                and p0[0] == 'slice' and p0[1] == ('param', d) and p0[2] in hss and p0[3] == NONE and p0[4] == NONE
            a = strip_ids(list(att.args.values())[0])
            szp = strip_ids(('call', 'ctypes.sizeof', NONE, (('#0', pay.term),)))
            ok = ok and a[0] == 'slice' and a[1] == ('param', d) and a[3] == strip_ids(('attr', hdr, 'length')) and a[4] == NONE \
                and a[2][0] == 'add' and len(a[2][1]) == 2 and szp in a[2][1] and any(h_ in a[2][1] for h_ in hss)
            ok = ok and tq.contains(r[1][1], strip_ids(pay.term)) and tq.contains(r[1][2], strip_ids(att.term))
    ctx.check(ok, 'L5', 'an event is header, then the payload structure of its type, then attributes up to nlmsg_len', key=('L5', 'parse-message'),
              site=ctx.site(pm, pm.node), detail={'returned': tq.text(r, 700)})
    pa = ctx.func('netlink.NetlinkProtocol._parse_attributes')
    A = ctx.sval(pa)
    r = strip_ids(A.ret())
    ups = [c for c in A.calls if c.lib == 'struct.unpack_from']
    wv = window_view(A)
    ok = r[0] == 'dict' and len(r[1]) == 1 and len(ups) == 1 and ups[0].args.get('#0') == const('HH') and wv is not None
    if ok:
        rw, adv = wv
        u = rw(ups[0].term)
        ent = rw(r[1][0])
        ok = u == ('call', 'struct.unpack_from', NONE, (('#0', const('HH')), ('#1', WIN))) \
            and ent[0] == 'each' and ent[4][0] == 'kv' and ent[4][1] == ('index', u, const(1))
        v = ent[4][2] if ok else None
        ok = ok and tq.is_call(v) and v[2] == ('index', strip_ids(A.expr('cls.attribute_types')), ('index', u, const(1))) \
            and tq.args(v).get('data') == ('slice', WIN, const(4), ('index', u, const(0)), NONE)
        ok = ok and adv == ('index', u, const(0))
        ok = ok and any(a[0][0] == 'cmp' and a[0][1] == '==' and const(0) in a[0][2:] and ('index', u, const(0)) in a[0][2:] and not a[1]
                        for a in ent[3])
    ctx.check(ok, 'L5', 'attributes are (nla_len, nla_type) in host order followed by nla_len - 4 octets of data; a zero length ends the walk',
              key=('L5', 'parse-attributes'), site=ctx.site(pa, pa.node), detail={'returned': tq.text(r, 600)})
    # controller reads fields that exist in the mirrors
    roots = {'ikesacontroller.IkeSaController.process_acquire': 'xfrm.XfrmUserAcquire',
             'ikesacontroller.IkeSaController.process_expire': 'xfrm.XfrmUserExpire'}
    nreads = 0
    for q, mirror in roots.items():
        fi = ctx.func(q)
        F = ctx.sval(fi)
        root = ('param', fi.call_params()[0])
        chains = set()

        def chain_of(t):
            parts = []
            while t[0] == 'attr':
                parts.append(t[2])
                t = t[1]
            return tuple(reversed(parts)) if t == root else None
        for x in subterms_of(F):
            if x[0] == 'attr':
                ch = chain_of(x)
                if ch:
                    chains.add(ch)
        maximal = [c for c in chains if not any(o != c and o[:len(c)] == c for o in chains)]
        for ch in sorted(maximal):
            st = py_layout(prog, prog.cls(mirror))
            ok = True
            used = []
            for p in ch:
                f = next((f for f in st.fields if f.name == p), None) if st is not None else None
                if f is None:
                    # the first step that is not a field may be a method / property of the mirror class (to_ipaddr, ...)
                    ok = st is None or bool(used) and any(p in k.methods for k in prog.classes.values() if k.name.startswith('Xfrm'))
                    break
                used.append(p)
                st = f.struct
            nreads += 1
            ctx.check(ok and bool(used), 'L5', '%s reads %s.%s, a field of the decoded structure' % (fi.name, root[1], '.'.join(ch)),
                      key=('L5', 'controller-read', '.'.join(used) or '.'.join(ch)), site=ctx.site(fi, fi.node))
    ctx.floor('L5 field paths read by the controller', nreads, 8, rule='L5')
    ml = ctx.func('ikesacontroller.IkeSaController.main_loop')
    L = ctx.sval(ml)
    ok = True
    for q, const_name, argn in (('ikesacontroller.IkeSaController.process_acquire', 'XFRM_MSG_ACQUIRE', 2),
                                ('ikesacontroller.IkeSaController.process_expire', 'XFRM_MSG_EXPIRE', 1)):
        cs = L.calls_to(qual=q)
        ok1 = len(cs) == 1
        if ok1:
            c = cs[0]
            msgs = tq.find_calls(list(c.args.values())[0], 'netlink.NetlinkProtocol.parse_message')
            ok1 = len(msgs) >= 1 and list(c.args.values())[0] == ('index', msgs[0], const(1)) and \
                (argn == 1 or list(c.args.values())[1] == ('index', msgs[0], const(2)))
            want = L.mk_cmp('==', ('attr', ('index', msgs[0], const(0)), 'type'), L.expr('xfrm.' + const_name)) if ok1 else None
            ok1 = ok1 and any(a == (want, True) for a in c.pc)
        ok = ok and ok1
    ctx.check(ok, 'L5', 'kernel events are dispatched on the netlink message type: ACQUIRE -> process_acquire(payload, attributes), '
              'EXPIRE -> process_expire(payload)', key=('L5', 'dispatch'), site=ctx.site(ml, ml.node))


MANIFEST = {
    'level': 'Static decision of ABI agreement between two static artefacts: the natural-alignment layout (offset, size, byte order '
             'of every leaf field, total size) of each of the 17 ctypes mirrors equals that of the kernel structure parsed from the '
             'UAPI headers (<linux/xfrm.h>, <linux/netlink.h>, vendored copy cross-checked with the system copy); ~70 numeric '
             'constants equal the header enums/defines; each request builder feeds every kernel field from the like-oriented '
             'parameter (selector incl. masks tied to their port, id, addresses, families, lifetimes evaluated for several values, '
             'algorithm name/key length/key, message type and flags); framing lengths and the absence of alignment padding follow '
             'from the computed sizes; reply error/ack semantics evaluated; event registries and the fields the controller reads.',
    'note': 'Trusted: LP64 natural alignment as the target ABI, the header reader for the C subset these headers use. Declined: what '
            'the running kernel does; decoding real socket bytes.',
    'technique': 'layout computation of ctypes mirrors vs parsed C declarations + constant tables + orientation of request fields over value terms',
    'design_ref': 'DESIGN.md 3/C14',
}
MANIFEST['note'] += (' Also decided here (necessary conditions shared between properties or added after the independent '
                     'change rounds, DESIGN.md 8.7): selector/network/port conversions (from C12), signedness of mirror fields the daemon reads, from_ipaddr source. Rounds 7-8: constant-table lookups by get() or [] alike.')
