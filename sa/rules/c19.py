"""C19 - Configuration is loaded faithfully or rejected cleanly.

B1 (A1 + configuration taint)  nothing but ConfigurationError leaves Configuration(...): every
         operation applied to a YAML-untyped value (attribute/method access, subscription,
         iteration, membership, use as a dictionary key, int(), ip_network(), getaddrinfo(),
         .encode(), PEM loading) is in the catalogue with the exceptions it can raise, and
         each is routed through the enclosing handlers.
B2 (A5/A7) every field of IkeConfiguration / IpsecConfiguration / AuthConfiguration is fed
         from the documented key with the documented default through the documented
         conversion; algorithm lists keep their order; AH drops ENCR; NO_ESN is appended;
         the name tables map each documented name to the documented transform; the result
         is keyed by (my_addr, peer_addr).
B3 (A4)  a connection whose my_addr is not a listening address is refused.
"""
import ast

from ..cfg import build_cfg
from ..model import AnalysisError, attr_chain, namedtuple_fields, src, walk_no_nested
from ..sval import NONE, const, mk_attr, strip_ids, subterms
from ..terms import callee_name, calls_in, compare_parts, flatten_add, inline, kwargs_of, single_def
from .. import tq
from . import common

EXPLANATION = ('static analysis: exception-escape analysis of Configuration.__init__ with a YAML-untyped taint '
               'catalogue (every operation on a value read from the dictionary may fail with the exceptions of a '
               'wrongly typed operand), plus provenance of every configuration-tuple field against the documented '
               'key/default/conversion table and evaluation of the algorithm name tables')
ASSUMPTIONS = [
    'oracle for B2: README / example.yaml / the property text, transcribed into FIELD tables of this module',
    'YAML values may be mapping, list, str, int, float, bool or None at every level (taint is only cleared by '
    'str()/int() conversions, isinstance/type() guards and successful .encode())',
    'declined: the grammar of all dictionaries as runtime inputs; hostname resolution results',
]

CFG_MOD = 'configuration'
CLS = 'configuration.Configuration'
DICT_METHODS = {'get', 'items', 'values', 'keys'}
MANDATORY = '<mandatory>'


# ------------------------------------------------------------------------------- taint
COPIES = ('sorted', 'list', 'tuple', 'reversed', 'enumerate', 'iter', 'dict', 'set', 'frozenset', 'OrderedDict')
ORDERING = ('sorted', 'min', 'max')


class Taint:
    """names holding YAML-untyped values, per function of configuration.py (flow-insensitive,
    interprocedural over resolved calls; refinements by dominating type guards)"""

    def __init__(self, ctx):
        self.ctx = ctx
        self.prog, self.res = ctx.prog, ctx.res
        self.tainted = {}    # qual -> set(names)
        self.refined = {}    # qual -> {name: (typename, lineno of guard)}
        self.funcs = [f for f in self.prog.all_functions() if f.module.name == CFG_MOD]
        init = self.prog.func(CLS + '.__init__')
        ps = init.call_params()
        ctx.require(len(ps) >= 2, 'anchor vanished: Configuration.__init__(my_addresses, conf_dict)')
        self.tainted[init.qual] = {ps[1]}
        self.rec_fields = set()
        for f in self.funcs:
            self.tainted.setdefault(f.qual, set())
            self.refined[f.qual] = self._guards(f)
        self._fix()

    def _guards(self, fi):
        out = {}
        for st in fi.node.body:
            if isinstance(st, ast.If) and st.body and isinstance(st.body[-1], ast.Raise) and not st.orelse:
                t = st.test
                neg = False
                if isinstance(t, ast.UnaryOp) and isinstance(t.op, ast.Not):
                    t, neg = t.operand, True
                # `type(X) is not T` / `not isinstance(X, T)`
                if isinstance(t, ast.Compare) and len(t.ops) == 1 and isinstance(t.ops[0], ast.IsNot) and not neg \
                        and isinstance(t.left, ast.Call) and src(t.left.func) == 'type' and t.left.args \
                        and isinstance(t.left.args[0], ast.Name) and isinstance(t.comparators[0], ast.Name):
                    out[t.left.args[0].id] = (t.comparators[0].id, st.lineno)
                elif neg and isinstance(t, ast.Call) and src(t.func) == 'isinstance' and len(t.args) == 2 \
                        and isinstance(t.args[0], ast.Name) and isinstance(t.args[1], ast.Name):
                    out[t.args[0].id] = (t.args[1].id, st.lineno)
        return out

    def is_refined(self, fi, name, node, kinds):
        r = self.refined.get(fi.qual, {}).get(name)
        return r is not None and r[0] in kinds and getattr(node, 'lineno', 0) > r[1]

    def is_tainted(self, fi, e):
        t = self.tainted.get(fi.qual, set())
        if isinstance(e, ast.Name):
            return e.id in t
        if isinstance(e, ast.Subscript):
            return self.is_tainted(fi, e.value)
        if isinstance(e, ast.IfExp):
            return self.is_tainted(fi, e.body) or self.is_tainted(fi, e.orelse)
        if isinstance(e, ast.Call) and isinstance(e.func, ast.Attribute) and e.func.attr in DICT_METHODS:
            return self.is_tainted(fi, e.func.value)
        if isinstance(e, ast.Attribute) and e.attr in getattr(self, 'rec_fields', ()) and not (
                isinstance(e.value, ast.Name) and fi is not None and e.value.id == fi.self_name):
            # a field of a configuration record that is filled with an untyped value as it came (the connection name)
            return True
        if isinstance(e, (ast.GeneratorExp, ast.ListComp, ast.SetComp)):
            return self.is_tainted(fi, e.elt)
        if isinstance(e, ast.Call) and isinstance(e.func, ast.Name) and e.func.id in COPIES and e.args:
            # the same untyped values in another container / order
            return self.is_tainted(fi, e.args[0])
        return False

    def _fix(self):
        changed = True
        rounds = 0
        while changed:
            changed = False
            rounds += 1
            if rounds > 30:
                raise AnalysisError('configuration taint did not converge')
            for fi in self.funcs:
                t = self.tainted[fi.qual]
                before = len(t)
                for n in walk_no_nested(fi.node):
                    if isinstance(n, ast.Call) and isinstance(n.func, ast.Name) and n.func.id[:1].isupper() and n.func.id.endswith('Configuration'):
                        for kw in n.keywords:
                            if kw.arg and self.is_tainted(fi, kw.value) and kw.arg not in self.rec_fields:
                                self.rec_fields.add(kw.arg)
                                changed = True
                    if isinstance(n, ast.Assign) and self.is_tainted(fi, n.value):
                        for tg in n.targets:
                            for x in ast.walk(tg):
                                if isinstance(x, ast.Name):
                                    t.add(x.id)
                    elif isinstance(n, (ast.For, ast.comprehension)) and self.is_tainted(fi, n.iter):
                        for x in ast.walk(n.target):
                            if isinstance(x, ast.Name):
                                t.add(x.id)
                    elif isinstance(n, ast.Call):
                        r = self.res.resolve_call(n, fi, count=False)
                        for tgt in r.targets:
                            if tgt.module.name != CFG_MOD:
                                continue
                            params = tgt.call_params()
                            for i, a in enumerate(n.args):
                                if i < len(params) and self.is_tainted(fi, a):
                                    if params[i] not in self.tainted[tgt.qual]:
                                        self.tainted[tgt.qual].add(params[i])
                                        changed = True
                            for kw in n.keywords:
                                if kw.arg and self.is_tainted(fi, kw.value) and kw.arg not in self.tainted[tgt.qual]:
                                    self.tainted[tgt.qual].add(kw.arg)
                                    changed = True
                if len(t) != before:
                    changed = True

    # ----------------------------------------------------------------- catalogue extension
    def effects(self, fi, node, x):
        if fi.module.name != CFG_MOD:
            return []
        out = []

        def base_name(e):
            return e.id if isinstance(e, ast.Name) else None

        if isinstance(x, ast.Call) and isinstance(x.func, ast.Attribute) and self.is_tainted(fi, x.func.value):
            recv = x.func.value
            nm = base_name(recv)
            ok = nm is not None and x.func.attr in DICT_METHODS and self.is_refined(fi, nm, x, ('dict', 'OrderedDict'))
            if not ok:
                out.append(('AttributeError', 'untyped configuration value: %s' % src(x)[:60], x))
        if isinstance(x, ast.Subscript) and isinstance(x.ctx, ast.Load):
            if self.is_tainted(fi, x.value):
                nm = base_name(x.value)
                if not (nm and self.is_refined(fi, nm, x, ('dict', 'list', 'OrderedDict'))):
                    out.append(('TypeError', 'subscript of untyped configuration value: %s' % src(x)[:60], x))
            elif not isinstance(x.slice, ast.Slice) and self.is_tainted(fi, x.slice):
                out.append(('TypeError', 'untyped configuration value used as dictionary key: %s' % src(x)[:60], x))
        if isinstance(x, ast.Compare) and any(isinstance(o, (ast.In, ast.NotIn)) for o in x.ops):
            for c in x.comparators:
                if self.is_tainted(fi, c):
                    nm = base_name(c)
                    if not (nm and self.is_refined(fi, nm, x, ('dict', 'list', 'str', 'OrderedDict'))):
                        out.append(('TypeError', 'membership test on untyped configuration value: %s' % src(x)[:60], x))
        if node.kind == 'iter' and x is node.ast.iter:
            it = x
            if isinstance(it, ast.Call) and isinstance(it.func, ast.Attribute) and it.func.attr in DICT_METHODS:
                pass    # the method call itself carries the AttributeError
            elif self.is_tainted(fi, it):
                nm = base_name(it)
                if not (nm and self.is_refined(fi, nm, it, ('dict', 'list', 'str', 'OrderedDict'))):
                    out.append(('TypeError', 'iteration over untyped configuration value: %s' % src(it)[:60], it))
        if isinstance(x, ast.Call) and isinstance(x.func, ast.Name) and x.func.id in ORDERING and x.args and self.is_tainted(fi, x.args[0]) \
                and not any(kw.arg == 'key' for kw in x.keywords):
            # YAML keys and values of one mapping can be of different types (1: and "a":): ordering them compares int with str
            out.append(('TypeError', 'ordering untyped configuration values: %s' % src(x)[:60], x))
        if isinstance(x, ast.Call) and isinstance(x.func, ast.Attribute) and x.func.attr == 'join' and len(x.args) == 1 \
                and isinstance(x.func.value, ast.Constant) and isinstance(x.func.value.value, (str, bytes)) and self.is_tainted(fi, x.args[0]):
            # str.join takes strings only: a connection named `1:` or `~:` in the YAML is an int / None
            out.append(('TypeError', 'joining untyped configuration values as text: %s' % src(x)[:60], x))
        if isinstance(x, ast.Call) and ((isinstance(x.func, ast.Attribute) and x.func.attr == 'sort' and self.is_tainted(fi, x.func.value))):
            out.append(('TypeError', 'ordering untyped configuration values: %s' % src(x)[:60], x))
        if isinstance(x, ast.Call):
            r = self.res.resolve_call(x, fi, count=False)
            if r.kind == 'lib' and r.lib == 'socket.getaddrinfo' and x.args and self.is_tainted(fi, x.args[0]):
                out.append(('TypeError', 'getaddrinfo(%s) on a non-string' % src(x.args[0])[:30], x))
                out.append(('UnicodeError', 'getaddrinfo(%s) on an over-long label' % src(x.args[0])[:30], x))
        return out


# ------------------------------------------------------------------------------- B2 helpers
def conf_reads(term, d):
    """[(key, default term | None | MANDATORY)] for every `d.get(K, D)` / `d[K]` on the dictionary parameter term `d`"""
    out = []
    for x in subterms(strip_ids(term)):
        if not isinstance(x, tuple) or not x:
            continue
        if x[0] == 'call' and x[1] == 'method.get' and x[2] == d and x[3] and x[3][0][1][0] == 'const':
            a = [v for _, v in x[3]]
            out.append((a[0][2], a[1] if len(a) > 1 else None))
        elif x[0] == 'index' and x[1] == d and x[2][0] == 'const':
            out.append((x[2][2], MANDATORY))
    return out


def default_value(t):
    if t is MANDATORY or t is None:
        return t
    if t[0] == 'const':
        return t[2]
    if t[0] == 'list' and all(isinstance(x, tuple) and x and x[0] == 'const' for x in t[1]):
        return [x[2] for x in t[1]]
    return tq.text(t)


# field -> (reads as {(key, default)}, callee names that must wrap the value)
IKE_FIELDS = {
    'my_addr': ({('my_addr', MANDATORY)}, {'_load_ip_address'}),
    'peer_addr': ({('peer_addr', MANDATORY)}, {'_load_ip_address'}),
    'my_auth': ({('my_auth', MANDATORY)}, {'_load_auth_conf'}),
    'peer_auth': ({('peer_auth', MANDATORY)}, {'_load_auth_conf'}),
    'lifetime': ({('lifetime', 900)}, {'int'}),
    'dpd': ({('dpd', 60)}, {'int'}),
}
IKE_ALGS = [('encr', ['aes256'], '_encr_name_to_transform'), ('integ', ['sha256'], '_integ_name_to_transform'),
            ('prf', ['sha256'], '_prf_name_to_transform'), ('dh', ['14'], '_dh_name_to_transform')]
IPSEC_FIELDS = {
    'lifetime': ({('lifetime', 300)}, {'int'}),
    'mode': ({('mode', 'tunnel')}, {'_load_from_dict'}),
    'my_ts': ({('my_subnet', 'ikeconf.my_addr'), ('my_port', 0), ('ip_proto', 'any')},
              {'from_network', '_load_ip_network', 'int', '_load_from_dict'}),
    'peer_ts': ({('peer_subnet', 'ikeconf.peer_addr'), ('peer_port', 0), ('ip_proto', 'any')},
                {'from_network', '_load_ip_network', 'int', '_load_from_dict'}),
}
IPSEC_ALGS = [('encr', ['aes256'], '_encr_name_to_transform'), ('integ', ['sha256'], '_integ_name_to_transform'),
              ('dh', [], '_dh_name_to_transform')]

# name tables: name -> (transform type, id, keylen)
T_ENCR, T_PRF, T_INTEG, T_DH = 1, 2, 3, 4
NAME_TABLES = {
    '_encr_name_to_transform': {'aes128': (T_ENCR, 12, 128), 'aes256': (T_ENCR, 12, 256)},
    '_integ_name_to_transform': {'sha1': (T_INTEG, 2, None), 'sha256': (T_INTEG, 12, None), 'sha512': (T_INTEG, 14, None)},
    '_prf_name_to_transform': {'sha1': (T_PRF, 2, None), 'sha256': (T_PRF, 5, None), 'sha512': (T_PRF, 7, None)},
    '_dh_name_to_transform': dict([(str(n), (T_DH, n, None)) for n in range(14, 22)] + [
        ('modp2048', (T_DH, 14, None)), ('modp3072', (T_DH, 15, None)), ('modp4096', (T_DH, 16, None)),
        ('modp6144', (T_DH, 17, None)), ('modp8192', (T_DH, 18, None)), ('ecp256', (T_DH, 19, None)),
        ('ecp384', (T_DH, 20, None)), ('ecp521', (T_DH, 21, None))]),
}
ENUM_TABLES = {
    '_ip_proto_name_to_enum': {'tcp': 6, 'any': 0, 'udp': 17, 'icmp': 1},
    '_mode_name_to_enum': {'transport': 0, 'tunnel': 1},
    '_ipsec_proto_name_to_enum': {'esp': 3, 'ah': 2},
}


def helpers_present(ctx):
    """the two translation helpers of the loaders exist as functions (the form the rules were written for); when a tree has folded them
    into the loaders, the same statements are read off the loaders' own terms"""
    return ctx.prog.functions.get(CLS + '._load_crypto_algs') is not None and ctx.prog.functions.get(CLS + '._load_from_dict') is not None


def lookup_contract(ctx, q):
    """function q(key, table) returns table[key] and turns the KeyError of an unknown key into ConfigurationError"""
    fi = ctx.prog.functions.get(q)
    if fi is None or not isinstance(fi.node, ast.FunctionDef):
        return False
    ps = fi.call_params()
    if len(ps) != 2:
        return False
    L = ctx.sval(fi)
    rets = [(pc, t) for pc, t, _ in L.returns]
    ok = len(rets) == 1 and strip_ids(rets[0][1]) == ('index', ('param', ps[1]), ('param', ps[0])) \
        and common.lookup_side(rets[0][0], ('param', ps[0])) == 'hit'
    bad = [(rpc, rt) for rpc, rt, _ in L.raises]
    return ok and len(bad) == 1 and tq.is_call(bad[0][1], 'new configuration.ConfigurationError') and \
        common.lookup_side(bad[0][0], ('param', ps[0])) == 'miss'


def lookup_of(ctx, term):
    """(key term, table term) when the term is the translation of a name through a table: `_load_from_dict(key, table)`, a call of any
    function with that contract, or `table[key]` written in the loader itself (its KeyError is then the loader's to translate, which
    B1 decides: nothing but ConfigurationError leaves Configuration(...))"""
    t = strip_ids(term)
    if tq.is_call(t) and isinstance(t[1], str):
        a = [v for _, v in t[3]]
        if t[1] == CLS + '._load_from_dict' and len(a) == 2:
            return a[0], a[1]
        if len(a) == 2 and t[1].startswith(CFG_MOD + '.') and lookup_contract(ctx, t[1]):
            return a[0], a[1]
    if t[0] == 'index' and (t[1][0] == 'dict' or (t[1][0] == 'global' and t[1][1].startswith(CFG_MOD + '.'))):
        return t[2], t[1]          # (a module-level table is the display it is bound to)
    return None


def _decide_each(term, test, value):
    """a one-comprehension list whose filter mentions `test`: the list with the test decided (dropped, or the empty list)"""
    t = strip_ids(term)
    if t[0] == 'list' and len(t[1]) == 1 and isinstance(t[1][0], tuple) and t[1][0][0] == 'each':
        ea = t[1][0]
        conds = []
        for a in ea[3]:
            if strip_ids(a[0]) == test:
                if a[1] != value:
                    return ('list', ())
                continue
            if a[0][0] == 'not' and strip_ids(a[0][1]) == test:
                if a[1] == value:
                    return ('list', ())
                continue
            conds.append(a)
        return ('list', (('each', ea[1], ea[2], tuple(conds), ea[4]),))
    return t


def check_field(ctx, fi, d, ntname, field, term, spec, site):
    reads_exp, wrappers = spec
    reads = set((k, default_value(dv)) for k, dv in conf_reads(term, d))
    ctx.check(reads == reads_exp, 'B2', '%s.%s is read from %s' % (
        ntname, field, ', '.join('%r (default %s)' % (k, 'none: mandatory' if dv is MANDATORY else repr(dv))
                                 for k, dv in sorted(reads_exp, key=str))),
        key=('B2', ntname, field, 'reads'), site=site, detail={'found': sorted(map(str, reads))})
    names = callee_names(term)
    if '_load_from_dict' in wrappers and '_load_from_dict' not in names and any(
            lookup_of(ctx, x) is not None for x in subterms(strip_ids(term)) if isinstance(x, tuple) and x):
        names = set(names) | {'_load_from_dict'}        # the same translation, written as a call of an equivalent function or in place
    ctx.check(wrappers <= names, 'B2', '%s.%s goes through %s' % (ntname, field, ', '.join(sorted(wrappers))),
              key=('B2', ntname, field, 'conversion'), site=site, detail={'found': sorted(n for n in names if n)})


def check_alg_list(ctx, fi, d, what, term, key, default, table, ah_test, site):
    """operand of the proposal's transform concatenation: `_load_crypto_algs(key, d.get(key, default), table)`; for the IPsec
    `encr` list: that, or the empty list exactly when the protocol is AH"""
    S = ctx.sval(fi)
    loaded = term
    if ah_test is not None:
        st = strip_ids(ah_test)
        esp = tq.restrict(term, lambda t: False if strip_ids(t) == st else None)
        ah = tq.restrict(term, lambda t: True if strip_ids(t) == st else None)
        if not helpers_present(ctx):
            esp, ah = _decide_each(esp, st, False), _decide_each(ah, st, True)
        ctx.check(ah == ('list', ()) and esp != ah, 'B2', '%s: the `%s` list is emptied exactly when the IPsec protocol is AH' % (what, key),
                  key=('B2', what, key, 'ah-drops-encr'), site=site, detail={'found': tq.text(term, 300)})
        loaded = esp
    ok = tq.is_call(loaded, CLS + '._load_crypto_algs')
    if ok:
        a = tq.args(loaded)
        rd = conf_reads(a.get('names', NONE), d)
        ok = a.get('key') == const(key) and len(rd) == 1 and rd[0][0] == key and default_value(rd[0][1]) == default \
            and a.get('name_to_transform') == S._module_const(ctx.prog.module(CFG_MOD), table)
    elif not helpers_present(ctx):
        # the helper folded into the loader: [<lookup>(str(x), TABLE) for x in d.get(key, default)], every entry, in order - and a value
        # that is not a list refused before it is iterated
        lt = strip_ids(loaded)
        if lt[0] == 'list' and len(lt[1]) == 1 and isinstance(lt[1][0], tuple) and lt[1][0][0] == 'each' and not lt[1][0][3]:
            ea = lt[1][0]
            names_t, item = ea[2], ea[4]
            rd = conf_reads(names_t, d)
            lk = lookup_of(ctx, item)
            el = ('elem', names_t, 0)
            ok = len(rd) == 1 and rd[0][0] == key and default_value(rd[0][1]) == default and lk is not None \
                and lk[0] == ('call', 'builtins.str', NONE, (('#0', el),)) \
                and lk[1] == strip_ids(S._module_const(ctx.prog.module(CFG_MOD), table))
            if ok:
                ty_ = tuple(sorted((('call', 'builtins.type', NONE, (('#0', names_t),)), ('global', 'builtins.list')), key=repr))
                is_list = [('cmp', 'is') + ty_, ('cmp', '==') + ty_,
                           ('call', 'builtins.isinstance', NONE, (('#0', names_t), ('#1', ('global', 'builtins.list'))))]
                guard = [(rpc, rt) for rpc, rt, _ in S.raises if any(strip_ids(a_[0]) in is_list and not a_[1] for a_ in rpc)]
                ok = bool(guard) and all(tq.is_call(rt, 'new configuration.ConfigurationError') for _, rt in guard)
    ctx.check(ok, 'B2', '%s: `%s` algorithms come from key %r (default %r) through %s' % (what, key, key, default, table),
              key=('B2', what, key, 'alg-list'), site=site, detail={'found': tq.text(loaded, 200)})


def auth_level(ctx, rule='B2'):
    """AuthConfiguration: the PSK and the key texts are the configured values encoded - nothing converted, defaulted or padded on the way
    (a `str()` around the value turns a blank `psk:` into the secret b'None') - loaded by the class of their field, else None; the
    identity is the typed `id` value.  Shared with C02 (what the AUTH verification compares against is what was configured)."""
    lauth = ctx.func(CLS + '._load_auth_conf')
    ps_ = lauth.call_params()
    ctx.require(len(ps_) >= 1, 'anchor vanished: _load_auth_conf(conf_dict)')
    LA = ctx.sval(lauth)
    d_auth = ('param', ps_[0])
    calls = LA.calls_to(callee='namedtuple.AuthConfiguration')
    ctx.floor('B2 AuthConfiguration(...) construction', len(calls), 1)
    for c in calls:
        kw = c.args
        site = ctx.site(lauth, c.node)

        def optional(field, key, wrapper):
            e = kw.get(field, NONE)
            present = LA.mk_cmp('in', const(key), d_auth)
            a, b = tq.restrict(e, lambda t: True if strip_ids(t) == strip_ids(present) else None), \
                tq.restrict(e, lambda t: False if strip_ids(t) == strip_ids(present) else None)
            ok = a != b and b == NONE and tuple(k for k, _ in conf_reads(a, d_auth)) == (key,)
            if ok:
                names = callee_names(a)
                ok = 'encode' in names and (wrapper is None or wrapper in names)
                # ... and nothing else is applied to the value on its way into the record
                ok = ok and not ({n for n in names if n} - {'encode', 'get', 'bytes'} - ({wrapper} if wrapper else set()))      # (bytes(b) of bytes is b)
            ctx.check(ok, rule, 'AuthConfiguration.%s is the encoded %r value%s when present, else None' % (
                field, key, ' loaded by %s' % wrapper if wrapper else ''), key=(rule, 'AuthConfiguration', field), site=site,
                detail={'found': tq.text(e, 300)})
        optional('psk', 'psk', None)
        optional('pubkey', 'pubkey', 'RsaPublicKey')
        optional('privkey', 'privkey', 'RsaPrivateKey')
        e = kw.get('id', NONE)
        rd = conf_reads(e, d_auth)
        ctx.check(tq.is_call(e, CLS + '._get_payload_id') and len(rd) == 1 and rd[0][0] == 'id'
                  and rd[0][1] is not None and rd[0][1] is not MANDATORY and rd[0][1][0] == 'const' and isinstance(rd[0][1][2], str), rule,
                  'AuthConfiguration.id is the typed `id` value (a fixed default when absent)',
                  key=(rule, 'AuthConfiguration', 'id'), site=site)
    return lauth, LA


def run(ctx):
    prog, res = ctx.prog, ctx.res
    init = ctx.func(CLS + '.__init__')
    taint = Taint(ctx)
    ctx.floor('B1 functions holding untyped configuration values',
              sum(1 for q, s in taint.tainted.items() if s), 6 if helpers_present(ctx) else 3)
    ctx.stats['B1 tainted names'] = {q: sorted(s) for q, s in taint.tainted.items() if s}
    esc = ctx.escape('c19', kills=common.crypto_kills(ctx), extra_effects=taint.effects)

    # ---------------------------------------------------------------- B1
    family = 'ConfigurationError'
    ctx.require(esc.hier.known(family), 'anchor vanished: ConfigurationError')
    reach = esc.reach([init])
    for q in reach:
        ctx.functions.add(q)
    ctx.floor('B1 functions in the reach of Configuration.__init__', len(reach), 12)
    neff = ntaint = 0
    for q in reach:
        f = prog.functions.get(q)
        if f is None:
            continue
        dmap, _ = esc.direct(f)
        for effs in dmap.values():
            neff += len(effs)
            ntaint += sum(1 for e in effs if 'configuration value' in e[1] or 'getaddrinfo' in e[1])
    ctx.floor('B1 catalogue effects in the reach', neff, 25)
    ctx.floor('B1 untyped-value effects in the reach', ntaint, 12)
    escaping = esc.escapes(init)
    ctx.floor('B1 exception classes leaving Configuration.__init__', len(escaping), 1)
    bad = 0
    for exc, origins in sorted(escaping.items()):
        if esc.hier.is_sub(exc, family):
            ctx.ok('B1', 'escaping class %s is a configuration error (%d raise sites)' % (exc, len(origins)))
            continue
        for origin, chain in origins.items():
            bad += 1
            ctx.bad('B1', ('B1', exc, origin), 'Configuration(...) can fail with %s (not ConfigurationError): %s' % (
                exc, origin), chain[-1].split(' ')[0], {'witness': chain})
    if not bad:
        ctx.ok('B1', '%d catalogue effects (%d on untyped values) in %d functions are all mapped to ConfigurationError'
               % (neff, ntaint, len(reach)), ctx.site(init, init.node))
    # the positive control: the taint catalogue fires on a fixture
    fx = positive_control(ctx)
    ctx.require(fx, 'positive control failed: taint catalogue does not report the unguarded fixture')

    # ---------------------------------------------------------------- B2
    like = ctx.func(CLS + '._load_ike_conf')
    lips = ctx.func(CLS + '._load_ipsec_conf')
    lauth = ctx.func(CLS + '._load_auth_conf')
    ike_fields = namedtuple_fields(prog, CFG_MOD, 'IkeConfiguration')
    ips_fields = namedtuple_fields(prog, CFG_MOD, 'IpsecConfiguration')
    auth_fields = namedtuple_fields(prog, CFG_MOD, 'AuthConfiguration')
    ctx.require(set(IKE_FIELDS) | {'name', 'proposal', 'protect'} == set(ike_fields),
                'IkeConfiguration fields changed: %s' % ike_fields)
    ctx.require(set(IPSEC_FIELDS) | {'index', 'proposal'} == set(ips_fields), 'IpsecConfiguration fields changed: %s' % ips_fields)
    ctx.require(set(auth_fields) == {'psk', 'id', 'privkey', 'pubkey'}, 'AuthConfiguration fields changed: %s' % auth_fields)

    def dict_param(fi, idx):
        ps = fi.call_params()
        ctx.require(len(ps) > idx, 'anchor vanished: parameters of %s' % fi.qual)
        return ps[idx]

    # --- IKE level
    LK = ctx.sval(like)
    d_ike = ('param', dict_param(like, 1))
    calls = LK.calls_to(callee='namedtuple.IkeConfiguration')
    own_protect_list(ctx, 'B2')
    ctx.floor('B2 IkeConfiguration(...) construction', len(calls), 1)
    for c in calls:
        kw = c.args
        site = ctx.site(like, c.node)
        for f, spec in IKE_FIELDS.items():
            ctx.require(f in kw, 'IkeConfiguration(...) without %s' % f)
            check_field(ctx, like, d_ike, 'IkeConfiguration', f, kw[f], spec, site)
        ctx.check(kw.get('name') == ('param', like.call_params()[0]), 'B2', 'IkeConfiguration.name is the connection name',
                  key=('B2', 'IkeConfiguration', 'name'), site=site)
        check_proposal(ctx, like, d_ike, 'IKE proposal', kw.get('proposal'), 'IKE', IKE_ALGS, False, site)
        # protect: starts empty, one entry appended per element of the mandatory `protect` list, in order
        src_list = ('index', d_ike, const('protect'))
        ok = kw.get('protect') == ('list', ())
        aps = [x for x in LK.calls if x.name == 'append' and x.recv == ('list', ())]
        ok = ok and len(aps) == 1
        if ok:
            a = strip_ids(list(aps[0].args.values())[0])
            ok = tq.is_call(a, CLS + '._load_ipsec_conf') and strip_ids(tq.args(a).get('ikeconf', NONE)) == strip_ids(c.term) \
                and tq.args(a).get('conf_dict') == ('elem', src_list, 0) and \
                not [x for x in aps[0].pc if x not in c.pc and not (x[0][0] == 'cmp' and x[0][1] == 'in')]
        ctx.check(ok, 'B2', 'every entry of the mandatory `protect` list is loaded, in order, into IkeConfiguration.protect '
                  '(which starts empty)', key=('B2', 'protect-loop'), site=site)
    # keyed by (my_addr, peer_addr)
    IN = ctx.sval(init)
    keyed = [(t, v, st) for t, v, _, st, _ in IN.stores if t[0] == 'index' and tq.contains(t[1], ('acc', 'self.ike_configurations', 0))
             or (t[0] == 'index' and t[1] == ('attr', ('param', 'self'), 'ike_configurations'))]
    ctx.floor('B2 ike_configurations[...] = ... store', len(keyed), 1)
    for t, v, st in keyed:
        ctx.check(t[2] == ('tuple', (mk_attr(v, 'my_addr'), mk_attr(v, 'peer_addr'))) and tq.is_call(v, CLS + '._load_ike_conf'), 'B2',
                  'connections are keyed by (my_addr, peer_addr) of the loaded connection', key=('B2', 'keyed-by'),
                  site=ctx.site(init, st), detail={'key': tq.text(t[2], 300)})
    gic = ctx.func(CLS + '.get_ike_configuration')
    GC = ctx.sval(gic)
    ps = gic.call_params()
    rets = [t for _, t, _ in GC.returns]
    ctx.check(len(rets) == 1 and rets[0] == ('index', ('attr', ('param', 'self'), 'ike_configurations'),
                                            ('tuple', (('param', ps[0]), ('param', ps[1])))),
              'B2', 'lookup uses the same (local, peer) key order', key=('B2', 'lookup-key'), site=ctx.site(gic, gic.node))

    # --- IPsec level
    LP = ctx.sval(lips)
    d_ips = ('param', dict_param(lips, 1))
    ikeconf_name = dict_param(lips, 0)
    ctx.require(ikeconf_name == 'ikeconf', 'parameter of _load_ipsec_conf renamed: adapt IPSEC_FIELDS defaults')
    calls = LP.calls_to(callee='namedtuple.IpsecConfiguration')
    ctx.floor('B2 IpsecConfiguration(...) construction', len(calls), 1)
    cm = prog.module(CFG_MOD)
    for c in calls:
        kw = c.args
        site = ctx.site(lips, c.node)
        for f, spec in IPSEC_FIELDS.items():
            ctx.require(f in kw, 'IpsecConfiguration(...) without %s' % f)
            check_field(ctx, lips, d_ips, 'IpsecConfiguration', f, kw[f], spec, site)
        # orientation inside from_network: (subnet, port, proto) of the same side
        for f, side in (('my_ts', 'my'), ('peer_ts', 'peer')):
            e = kw[f]
            okf = tq.is_call(e, 'message.TrafficSelector.from_network')
            if okf:
                a = tq.args(e)
                r0 = [k for k, _ in conf_reads(a.get('subnet', NONE), d_ips)]
                r1 = [k for k, _ in conf_reads(a.get('port', NONE), d_ips)]
                r2 = [k for k, _ in conf_reads(a.get('ip_proto', NONE), d_ips)]
                okf = r0 == [side + '_subnet'] and r1 == [side + '_port'] and r2 == ['ip_proto']
                ipt = a.get('ip_proto', NONE)
                lk_ = lookup_of(ctx, ipt)
                okf = okf and lk_ is not None and lk_[1] == strip_ids(LP._module_const(cm, '_ip_proto_name_to_enum'))
            ctx.check(okf, 'B2', 'IpsecConfiguration.%s = from_network(%s_subnet, %s_port, ip_proto looked up in _ip_proto_name_to_enum)' % (
                f, side, side), key=('B2', 'IpsecConfiguration', f, 'orientation'), site=site)
        # index
        entry_index(ctx, 'B2', kw['index'], d_ips, site)
        e = kw['mode']
        ctx.check(lookup_of(ctx, e) is not None and lookup_of(ctx, e)[1] == strip_ids(LP._module_const(cm, '_mode_name_to_enum')),
                  'B2', 'IpsecConfiguration.mode is looked up in _mode_name_to_enum', key=('B2', 'IpsecConfiguration', 'mode', 'table'),
                  site=site)
        check_proposal(ctx, lips, d_ips, 'IPsec proposal', kw.get('proposal'), None, IPSEC_ALGS, True, site)

    lauth, LA = auth_level(ctx, 'B2')
    # what each loader hands back is the record it built from the mapping it was given in this very call - not one kept from an earlier
    # call (a cache of records is keyed by *something*, and whatever the key leaves out is silently taken from the first entry loaded)
    for fi_, S_, cname in ((lauth, LA, 'AuthConfiguration'), (lips, ctx.sval(lips), 'IpsecConfiguration'), (like, LK, 'IkeConfiguration')):
        built = [strip_ids(c.term) for c in S_.calls_to(callee='namedtuple.' + cname)]
        rets = [strip_ids(t) for _, t, _ in S_.returns]

        def leaves(t):
            return leaves(t[2]) + leaves(t[3]) if t[0] == 'cond' else [t]
        odd = [t for r in rets for t in leaves(r) if t not in built]
        ctx.check(bool(rets) and not odd, 'B2', '%s returns the %s it has just built from its argument' % (fi_.name, cname),
                  key=('B2', fi_.name, 'returns-built-record'), site=ctx.site(fi_, fi_.node),
                  detail={'other returns': [tq.text(t, 160) for t in odd]})
    # ... and built from what its own section says: no loader writes (defaults, normalised values) into the mapping it reads
    common.loaders_read_only(ctx, 'B2')
    check_payload_id(ctx)
    # ... and the PayloadID object keeps the type and the octets it is handed
    from .c05 import ctor_keeps_values
    ctor_keeps_values(ctx, 'B2', only=('PayloadID',))
    check_ip_loaders(ctx)
    check_crypto_algs(ctx)
    check_tables(ctx)

    # ---------------------------------------------------------------- B3
    listen = ('param', like.call_params()[2])
    rets = [(pc, t) for pc, t, _ in LK.returns]
    ctx.check(bool(rets), 'B3', '_load_ike_conf returns the loaded connection', key=('B3', 'no-membership-test'), site=ctx.site(like, like.node))
    for pc, t in rets:
        ok = tq.is_call(t, 'namedtuple.IkeConfiguration')
        member = LK.mk_cmp('in', mk_attr(t, 'my_addr'), listen) if ok else None
        ctx.check(ok and tq.entails(pc, member) is True, 'B3',
                  'every normal return of _load_ike_conf passes the membership test of the loaded connection\'s my_addr in the listening '
                  'addresses', key=('B3', 'dominates'), site=ctx.site(like, like.node),
                  detail={'path condition': [('' if p else 'not ') + tq.text(a, 200) for a, p in pc]})
        if ok:
            bad = [(rpc, rt) for rpc, rt, _ in LK.raises if tq.entails(rpc, ('not', member)) is True]
            ctx.check(bool(bad) and all(tq.is_call(rt, 'new configuration.ConfigurationError') for _, rt in bad), 'B3',
                      'a connection whose my_addr is not a listening address raises ConfigurationError', key=('B3', 'raise'),
                      site=ctx.site(like, like.node))
    ctx.check(len(LK.exit_envs) == len(rets), 'B3', '_load_ike_conf has no other normal exit', key=('B3', 'other-exit'),
              site=ctx.site(like, like.node))
    # the listening addresses reach _load_ike_conf unchanged
    cs = IN.calls_to(qual=CLS + '._load_ike_conf')
    ctx.floor('B3 _load_ike_conf call', len(cs), 1)
    for c in cs:
        ctx.check(c.args.get(like.call_params()[2]) == ('param', init.call_params()[0]), 'B3',
                  'the listening addresses given to Configuration(...) are the ones tested', key=('B3', 'addresses-arg'),
                  site=ctx.site(init, c.node))
    ctx.stats['uncatalogued library calls'] = sorted(esc.uncatalogued)


def callee_names(t):
    out = set()
    for x in tq.find_calls(t):
        c = x[1]
        if isinstance(c, str):
            out.add(c.replace('new ', '').split('.')[-1])
    return out


def segments(t):
    """the lists a list-valued term is the concatenation of: `a + b + [x]`, `l = []; l.extend(a); l += b; l.append(x)` and
    `[*a, *b, x]` give the same segments"""
    from ..sval import mk_cond, pc_term
    if t[0] == 'add':
        out = []
        for x in t[1]:
            out.extend(segments(x))
        return out
    if t[0] == 'list' and any(isinstance(i, tuple) and i and (i[0] == 'star' or (i[0] == 'when' and i[2][0] == 'star')) for i in t[1]):
        out, plain = [], []
        for i in t[1]:
            if isinstance(i, tuple) and i and i[0] == 'star':
                if plain:
                    out.append(('list', tuple(plain)))
                    plain = []
                out.extend(segments(i[1]))
            elif isinstance(i, tuple) and i and i[0] == 'when' and len(i) == 3 and i[2][0] == 'star':
                if plain:
                    out.append(('list', tuple(plain)))
                    plain = []
                out.append(mk_cond(pc_term(i[1]), i[2][1], ('list', ())))
            else:
                plain.append(i)
        if plain:
            out.append(('list', tuple(plain)))
        return out
    return [t]


def check_proposal(ctx, fi, d, what, expr, proto, algs, ipsec, site):
    S = ctx.sval(fi)
    ok = expr is not None and tq.is_call(expr, 'new message.Proposal')
    ctx.check(ok, 'B2', '%s is built as Proposal(num, protocol, spi, transforms)' % what, key=('B2', what, 'shape'), site=site)
    if not ok:
        return
    a = tq.args(expr)
    ctx.check(a.get('num') == const(1) and a.get('spi') == const(b''), 'B2', '%s has number 1 and an empty SPI' % what,
              key=('B2', what, 'num-spi'), site=site)
    pid = a.get('protocol_id', NONE)
    if proto is not None:
        ctx.check(pid == ('global', 'message.Proposal.Protocol.' + proto), 'B2', '%s has protocol %s' % (what, proto),
                  key=('B2', what, 'protocol'), site=site)
    else:
        rd = conf_reads(pid, d)
        ctx.check(lookup_of(ctx, pid) is not None and len(rd) == 1 and rd[0][0] == 'ipsec_proto'
                  and default_value(rd[0][1]) == 'esp' and
                  lookup_of(ctx, pid)[1] == strip_ids(S._module_const(ctx.prog.module(CFG_MOD), '_ipsec_proto_name_to_enum')), 'B2',
                  '%s has the configured ipsec_proto (default esp)' % what, key=('B2', what, 'protocol'), site=site)
    tr = a.get('transforms', NONE)
    ops = segments(tr)
    want = len(algs) + (1 if ipsec else 0)
    ctx.check(len(ops) == want, 'B2', '%s concatenates exactly %d transform lists' % (what, want),
              key=('B2', what, 'concat-len'), site=site, detail={'transforms': tq.text(tr, 600)})
    if len(ops) != want:
        return
    for op, (key, default, table) in zip(ops, algs):
        ah = S.mk_cmp('==', pid, ('global', 'message.Proposal.Protocol.AH')) if (ipsec and key == 'encr') else None
        check_alg_list(ctx, fi, d, what, op, key, default, table, ah, site)
    if ipsec:
        ctx.check(strip_ids(ops[-1]) == strip_ids(S.expr('[Transform(Transform.Type.ESN, Transform.EsnId.NO_ESN)]')), 'B2',
                  '%s ends with the NO_ESN transform' % what, key=('B2', what, 'no-esn'), site=site)


def check_payload_id(ctx):
    fi = ctx.func(CLS + '._get_payload_id')
    P = ctx.sval(fi)
    p = fi.call_params()[0]
    def on(v):
        return lambda t: v if (t[0] == 'caught' and 'ValueError' in tq.text(t)) else None
    rets = [(pc, strip_ids(t)) for pc, t, _ in P.returns]
    # the two outcomes of ip_address(<text>): accepted (nothing caught) and refused (ValueError caught) - whether the code returns from
    # inside the handler or records the refusal in a local and tests that afterwards
    txt = [(pc, strip_ids(tq.restrict(t, on(True)))) for pc, t in rets if common.miss_path(pc, 'ValueError')]
    ip = [(pc, strip_ids(tq.restrict(t, on(False)))) for pc, t in rets if not common.miss_path(pc, 'ValueError')
          and not any(a[0][0] == 'caught' and a[1] for a in pc)]
    addr = strip_ids(P.expr('ip_address(%s)' % p))
    ok = len(ip) == 1 and tq.is_call(ip[0][1], 'new message.PayloadID') and tq.args(ip[0][1]).get('id_data') == ('attr', addr, 'packed')
    if ok:
        ty = tq.args(ip[0][1]).get('id_type', NONE)
        vals = []
        for v in (4, 6):
            def leaf(t, v=v):
                if t == ('attr', addr, 'version'):
                    return v
                if t[0] == 'global':
                    return t[1].split('.')[-1]
                raise tq.NoValue()
            try:
                vals.append(tq.teval(ty, leaf))
            except (tq.NoValue, Exception):
                vals.append(None)
        ok = vals == ['ID_IPV4_ADDR', 'ID_IPV6_ADDR']
    ctx.check(ok, 'B2', 'an id that parses as an IP address is typed ID_IPV4_ADDR / ID_IPV6_ADDR by its version and '
              'carries the packed address', key=('B2', '_get_payload_id', 'ip'), site=ctx.site(fi, fi.node),
              detail={'returns': [tq.text(t, 300) for _, t in rets]})
    ok2 = len(txt) == 1 and len(rets) == 2 and tq.is_call(txt[0][1], 'new message.PayloadID') and \
        tq.args(txt[0][1]).get('id_data') == strip_ids(P.expr('%s.encode()' % p))
    if ok2:
        ty = tq.args(txt[0][1]).get('id_type', NONE)
        at = strip_ids(P.mk_cmp('in', const('@'), ('param', p)))
        a_, b_ = tq.restrict(ty, lambda t: True if strip_ids(t) == at else None), tq.restrict(ty, lambda t: False if strip_ids(t) == at else None)
        ok2 = tq.text(a_).endswith('ID_RFC822_ADDR') and tq.text(b_).endswith('ID_FQDN')
    ctx.check(ok2, 'B2', 'any other id (ip_address raised ValueError) is typed ID_RFC822_ADDR when it contains "@", else ID_FQDN, and '
              'carries the encoded text', key=('B2', '_get_payload_id', 'text'), site=ctx.site(fi, fi.node))


def entry_index(ctx, rule, e=None, d_ips=None, site=None):
    """the index of a protect entry is the configured one, or - when none is configured - a draw from the module-level generator of
    `random` (independent draws for different entries: a generator seeded per entry from the connection gives entries of one connection
    the same index, and the acquire of one is then answered with the other's proposal, mode and selectors - shared with C15 Y3)"""
    if e is None:
        lips = ctx.func(CLS + '._load_ipsec_conf')
        LP = ctx.sval(lips)
        ps = lips.call_params()
        ctx.require(len(ps) > 1, 'anchor vanished: parameters of %s' % lips.qual)
        d_ips = ('param', ps[1])
        calls = LP.calls_to(callee='namedtuple.IpsecConfiguration')
        ctx.floor(rule + ' IpsecConfiguration(...) construction', len(calls), 1)
        for c in calls:
            ctx.require('index' in c.args, 'IpsecConfiguration(...) without index')
            entry_index(ctx, rule, c.args['index'], d_ips, ctx.site(lips, c.node))
        return
    rd = conf_reads(e, d_ips)
    ctx.check(len(rd) == 1 and rd[0][0] == 'index' and rd[0][1] is not MANDATORY and rd[0][1] is not None
              and any(isinstance(x[1], str) and x[1].startswith('random.') for x in tq.find_calls(rd[0][1]))
              and tq.is_call(e, 'builtins.int'), rule,
              'IpsecConfiguration.index is the configured index, or a random one when absent',
              key=(rule, 'IpsecConfiguration', 'index'), site=site)


def own_protect_list(ctx, rule):
    """every connection record is built by the IkeConfiguration constructor with a `protect` list of its own (a fresh, empty list that the
    loop then fills): a record derived from a shared template (`template._replace(...)`, a copied record) shares the template's list
    with every other connection, and each connection would be matched against the policies of all of them"""
    like = ctx.func(CLS + '._load_ike_conf')
    LK = ctx.sval(like)
    calls = LK.calls_to(callee='namedtuple.IkeConfiguration')
    derived = [c for c in LK.calls if c.name in ('_replace', 'copy', 'deepcopy') or (isinstance(c.callee, str) and c.callee.endswith('._replace'))]
    if not calls and derived:
        ctx.bad(rule, (rule, 'protect-shared'), '_load_ike_conf derives the connection record from another record (`%s`): the `protect` list is '
                'not a fresh list of this connection' % tq.text(derived[0].term, 80), ctx.site(like, derived[0].node), {})
        return
    for c in calls:
        ctx.check(strip_ids(c.args.get('protect', NONE)) == ('list', ()), rule, 'each connection record gets its own, initially empty `protect` list',
                  key=(rule, 'protect-own'), site=ctx.site(like, c.node), detail={'protect': tq.text(c.args.get('protect', NONE), 100)})


def check_ip_loaders(ctx):
    """the two address conversions: a subnet is what ip_network() makes of the configured text in its strict (default) reading - host
    bits set are an error, not silently dropped - and an address is ip_address() of the first getaddrinfo() result; failures of either
    become ConfigurationError"""
    fi = ctx.func(CLS + '._load_ip_network')
    S = ctx.sval(fi)
    p = fi.call_params()[0]
    rets = [strip_ids(t) for pc, t, _ in S.returns]
    ctx.check(rets == [strip_ids(S.expr('ip_network(%s)' % p))], 'B2', '_load_ip_network returns ip_network(<text>) with no further options '
              '(strict: a subnet with host bits set is refused)', key=('B2', '_load_ip_network', 'value'), site=ctx.site(fi, fi.node),
              detail={'returns': [tq.text(t, 200) for t in rets]})
    exc = [tq.text(t, 200) for pc, t, _ in S.raises]
    ctx.check(bool(exc) and all('ConfigurationError' in e for e in exc), 'B2', 'a text ip_network() refuses becomes ConfigurationError',
              key=('B2', '_load_ip_network', 'error'), site=ctx.site(fi, fi.node), detail={'raises': exc})
    fa = ctx.func(CLS + '._load_ip_address')
    A = ctx.sval(fa)
    pa = fa.call_params()[0]
    rets = [strip_ids(t) for pc, t, _ in A.returns]
    want = [strip_ids(A.expr('ip_address(ip_address(socket.getaddrinfo(%s, None)[0][4][0]))' % pa)),
            strip_ids(A.expr('ip_address(socket.getaddrinfo(%s, None)[0][4][0])' % pa))]
    ctx.check(len(rets) == 1 and rets[0] in want, 'B2', '_load_ip_address returns the first address getaddrinfo() resolves the text to',
              key=('B2', '_load_ip_address', 'value'), site=ctx.site(fa, fa.node), detail={'returns': [tq.text(t, 200) for t in rets]})


def check_crypto_algs(ctx, rule='B2'):
    if not helpers_present(ctx):
        # folded into the loaders: each transform list of both proposals is decided where it is built (check_alg_list, B2); here the same
        # statement for the property that shares this rule - every operand of the two transform concatenations that is read from the
        # mapping is a list built entry by entry, in order, through a table lookup
        n = 0
        for q, dparam in ((CLS + '._load_ike_conf', 1), (CLS + '._load_ipsec_conf', 1)):
            fi = ctx.func(q)
            S = ctx.sval(fi)
            for c in S.calls_to(callee='new message.Proposal'):
                for op in segments(tq.args(c.term).get('transforms', NONE)):
                    for leaf_ in (lambda t: [t[2], t[3]] if t[0] == 'cond' else [t])(strip_ids(op)):
                        if leaf_[0] == 'list' and len(leaf_[1]) == 1 and isinstance(leaf_[1][0], tuple) and leaf_[1][0][0] == 'each':
                            n += 1
                            ea = leaf_[1][0]
                            lk = lookup_of(ctx, ea[4])
                            # (a condition that does not look at the element - "the protocol is not AH" - gates the whole list, it filters nothing)
                            per_elem = [a_ for a_ in ea[3] if tq.contains(strip_ids(a_[0]), ('elem', ea[2], 0))]
                            ctx.check(not per_elem and lk is not None and lk[0] == ('call', 'builtins.str', NONE, (('#0', ('elem', ea[2], 0)),)), rule,
                                      '%s: a configured algorithm list is translated name by name, in the listed order, without filtering or '
                                      'sorting' % fi.name, key=(rule, fi.name, 'alg-list-order', tq.text(ea[2], 60)), site=ctx.site(fi, c.node))
        ctx.floor('%s algorithm lists built in the loaders' % rule, n, 7, rule=rule)
        return
    fi = ctx.func(CLS + '._load_crypto_algs')
    ps = fi.call_params()
    ctx.require(len(ps) == 3, 'anchor vanished: _load_crypto_algs(key, names, name_to_transform)')
    A = ctx.sval(fi)
    names = ('param', ps[1])
    rets = [(pc, strip_ids(t)) for pc, t, _ in A.returns]
    want = ('list', (('each', 0, names, (), ('call', CLS + '._load_from_dict', ('param', 'self'),
                                             (('key', ('call', 'builtins.str', NONE, (('#0', ('elem', names, 0)),))),
                                              ('cnf_dict', ('param', ps[2]))))),))
    def no_recv(t):
        # _load_from_dict does not use its receiver (a static method): self._load_from_dict and Configuration._load_from_dict are one call
        if isinstance(t, tuple):
            if t and t[0] == 'call' and t[1] == CLS + '._load_from_dict':
                return ('call', t[1], NONE) + tuple(no_recv(x) for x in t[3:])
            return tuple(no_recv(x) for x in t)
        return t
    ctx.check(len(rets) == 1 and no_recv(rets[0][1]) == no_recv(want) and len(A.exit_envs) == 1, rule,
              'algorithm lists are translated name by name, in the listed order, without filtering or sorting',
              key=(rule, '_load_crypto_algs', 'order'), site=ctx.site(fi, fi.node), detail={'returns': [tq.text(t, 300) for _, t in rets]})
    is_list = [A.expr('type(%s) is list' % ps[1]), A.expr('isinstance(%s, list)' % ps[1])]
    ok = bool(rets) and any(tq.entails(rets[0][0], g) is True for g in is_list)
    bad = [(rpc, rt) for rpc, rt, _ in A.raises]
    ok = ok and bool(bad) and all(tq.is_call(rt, 'new configuration.ConfigurationError') for _, rt in bad)
    ctx.check(ok, rule, 'a value that is not a list is rejected (ConfigurationError) before it is iterated',
              key=(rule, '_load_crypto_algs', 'guard'), site=ctx.site(fi, fi.node))
    lfd = ctx.func(CLS + '._load_from_dict')
    L = ctx.sval(lfd)
    ps = lfd.call_params()
    rets = [(pc, t) for pc, t, _ in L.returns]
    ok = len(rets) == 1 and strip_ids(rets[0][1]) == ('index', ('param', ps[1]), ('param', ps[0])) \
        and common.lookup_side(rets[0][0], ('param', ps[0])) == 'hit'
    bad = [(rpc, rt) for rpc, rt, _ in L.raises]
    ok = ok and len(bad) == 1 and tq.is_call(bad[0][1], 'new configuration.ConfigurationError') and \
        common.lookup_side(bad[0][0], ('param', ps[0])) == 'miss'
    ctx.check(ok, rule, 'an unknown name is refused with ConfigurationError and a known one returns its table entry',
              key=(rule, '_load_from_dict'), site=ctx.site(lfd, lfd.node))


def check_tables(ctx):
    prog = ctx.prog
    m = prog.module(CFG_MOD)
    n = 0
    for tname, want in NAME_TABLES.items():
        d = m.consts.get(tname)
        ctx.require(isinstance(d, ast.Dict), 'anchor vanished: table %s' % tname)
        have = {}
        for k, v in zip(d.keys, d.values):
            ctx.require(isinstance(k, ast.Constant) and isinstance(v, ast.Call) and callee_name(v) == 'Transform',
                        'table %s has an entry that is not name -> Transform(...)' % tname)
            args = [prog.const_eval(a, m) for a in v.args]
            args += [None] * (3 - len(args))
            for kwd in v.keywords:
                if kwd.arg == 'keylen':
                    args[2] = prog.const_eval(kwd.value, m)
            have[k.value] = tuple(args[:3])
        for name, val in want.items():
            n += 1
            ctx.check(have.get(name) == val, 'B2', '%s[%r] = Transform(type %d, id %d%s)' % (
                tname, name, val[0], val[1], ', keylen %d' % val[2] if val[2] else ''),
                key=('B2', 'table', tname, name), site='%s:%s' % ('configuration.py', d.lineno), detail={'found': have.get(name)})
        extra = sorted(set(have) - set(want))
        if extra:
            ctx.note('%s has undocumented extra names %s (not checked)' % (tname, extra))
    for tname, want in ENUM_TABLES.items():
        d = m.consts.get(tname)
        ctx.require(isinstance(d, ast.Dict), 'anchor vanished: table %s' % tname)
        have = {k.value: prog.const_eval(v, m) for k, v in zip(d.keys, d.values) if isinstance(k, ast.Constant)}
        for name, val in want.items():
            n += 1
            ctx.check(have.get(name) == val, 'B2', '%s[%r] = %d' % (tname, name, val), key=('B2', 'table', tname, name),
                      site='configuration.py:%s' % d.lineno, detail={'found': have.get(name)})
    ctx.floor('B2 name-table entries checked', n, 32)


FIXTURE = '''
class ConfigurationError(Exception):
    pass


class Configuration(object):
    def __init__(self, my_addresses, conf_dict):
        self.out = {}
        for name, d in conf_dict.items():
            try:
                self.out[name] = self._load(d)
            except KeyError as ex:
                raise ConfigurationError(str(ex))

    def _load(self, conf_dict):
        return int(conf_dict.get('lifetime', 5)), conf_dict['psk'].encode()
'''


def positive_control(ctx):
    """the taint catalogue + escape analysis must report AttributeError/TypeError/ValueError on a
    miniature loader with no boundary mapping"""
    import os
    import tempfile
    from ..driver import Ctx
    with tempfile.TemporaryDirectory() as d:
        with open(os.path.join(d, 'configuration.py'), 'w') as f:
            f.write(FIXTURE)
        c2 = Ctx('C19', root=d, quiet=True, normalise=False)
        t = Taint(c2)
        e = c2.escape('fx', extra_effects=t.effects)
        got = set(e.escapes(c2.prog.func(CLS + '.__init__')))
    return {'AttributeError', 'TypeError', 'ValueError'} <= got


MANIFEST = {
    'level': 'All-paths static decision of the error discipline inside the catalogue envelope: the exception-escape set of '
             'Configuration.__init__, computed with a YAML-untyped taint catalogue (every attribute access, subscription, '
             'iteration, membership test, dictionary-key use, int(), ip_network(), getaddrinfo(), .encode() and PEM load '
             'on a value read from the dictionary may fail as for a wrongly typed operand), contains only '
             'ConfigurationError; plus a provenance check of every configuration-tuple field against the documented '
             'key / default / conversion table, the algorithm name tables evaluated entry by entry, list order, '
             'AH-drops-ENCR, NO_ESN, the (my_addr, peer_addr) key and the my_addr membership gate.',
    'note': 'Trusted: effect catalogue, the documented mapping transcribed from README/example.yaml/property text. '
            'Declined: the grammar of all dictionaries as runtime inputs.',
    'technique': 'exception-escape analysis with configuration taint + provenance/table conformance',
    'design_ref': 'DESIGN.md 3/C19',
}
MANIFEST['note'] += (' Also decided here (necessary conditions shared between properties or added after the independent '
                     'change rounds, DESIGN.md 8.7): PayloadID keeps the octets it is given (from C05), strict ip_network, each connection owns its protect list. Rounds 7-8: ordering / joining untyped values are TypeError effects, taint through copies and record fields, loaders read-only.')
