"""C19 - Configuration is loaded faithfully or rejected cleanly.

B1 (A1 + configuration taint)  nothing but ConfigurationError leaves Configuration(...): every
         operation applied to a YAML-untyped value (attribute/method access, subscription,
         iteration, membership, use as a dictionary key, int(), ip_network(), getaddrinfo(),
         .encode(), PEM loading) is in the catalogue with the exceptions it can raise, and
         each is routed through the enclosing handlers.
B2 (A5/A7) every field of IkeConfiguration / IpsecConfiguration / AuthConfiguration is fed
         from the documented key with the documented default through the documented
         conversion; algorithm lists keep their order; AH drops ENCR; NO_ESN is appended;
         the name tables map each documented name to the documented transform; the result
         is keyed by (my_addr, peer_addr).
B3 (A4)  a connection whose my_addr is not a listening address is refused.
"""
import ast

from ..cfg import build_cfg
from ..model import AnalysisError, attr_chain, namedtuple_fields, src, walk_no_nested
from ..terms import callee_name, calls_in, compare_parts, flatten_add, inline, kwargs_of, single_def
from . import common

EXPLANATION = ('static analysis: exception-escape analysis of Configuration.__init__ with a YAML-untyped taint '
               'catalogue (every operation on a value read from the dictionary may fail with the exceptions of a '
               'wrongly typed operand), plus provenance of every configuration-tuple field against the documented '
               'key/default/conversion table and evaluation of the algorithm name tables')
ASSUMPTIONS = [
    'oracle for B2: README / example.yaml / the property text, transcribed into FIELD tables of this module',
    'YAML values may be mapping, list, str, int, float, bool or None at every level (taint is only cleared by '
    'str()/int() conversions, isinstance/type() guards and successful .encode())',
    'declined: the grammar of all dictionaries as runtime inputs; hostname resolution results',
]

CFG_MOD = 'configuration'
CLS = 'configuration.Configuration'
DICT_METHODS = {'get', 'items', 'values', 'keys'}
MANDATORY = '<mandatory>'


# ------------------------------------------------------------------------------- taint
class Taint:
    """names holding YAML-untyped values, per function of configuration.py (flow-insensitive,
    interprocedural over resolved calls; refinements by dominating type guards)"""

    def __init__(self, ctx):
        self.ctx = ctx
        self.prog, self.res = ctx.prog, ctx.res
        self.tainted = {}    # qual -> set(names)
        self.refined = {}    # qual -> {name: (typename, lineno of guard)}
        self.funcs = [f for f in self.prog.all_functions() if f.module.name == CFG_MOD]
        init = self.prog.func(CLS + '.__init__')
        ps = init.call_params()
        ctx.require(len(ps) >= 2, 'anchor vanished: Configuration.__init__(my_addresses, conf_dict)')
        self.tainted[init.qual] = {ps[1]}
        for f in self.funcs:
            self.tainted.setdefault(f.qual, set())
            self.refined[f.qual] = self._guards(f)
        self._fix()

    def _guards(self, fi):
        out = {}
        for st in fi.node.body:
            if isinstance(st, ast.If) and st.body and isinstance(st.body[-1], ast.Raise) and not st.orelse:
                t = st.test
                neg = False
                if isinstance(t, ast.UnaryOp) and isinstance(t.op, ast.Not):
                    t, neg = t.operand, True
                # `type(X) is not T` / `not isinstance(X, T)`
                if isinstance(t, ast.Compare) and len(t.ops) == 1 and isinstance(t.ops[0], ast.IsNot) and not neg \
                        and isinstance(t.left, ast.Call) and src(t.left.func) == 'type' and t.left.args \
                        and isinstance(t.left.args[0], ast.Name) and isinstance(t.comparators[0], ast.Name):
                    out[t.left.args[0].id] = (t.comparators[0].id, st.lineno)
                elif neg and isinstance(t, ast.Call) and src(t.func) == 'isinstance' and len(t.args) == 2 \
                        and isinstance(t.args[0], ast.Name) and isinstance(t.args[1], ast.Name):
                    out[t.args[0].id] = (t.args[1].id, st.lineno)
        return out

    def is_refined(self, fi, name, node, kinds):
        r = self.refined.get(fi.qual, {}).get(name)
        return r is not None and r[0] in kinds and getattr(node, 'lineno', 0) > r[1]

    def is_tainted(self, fi, e):
        t = self.tainted.get(fi.qual, set())
        if isinstance(e, ast.Name):
            return e.id in t
        if isinstance(e, ast.Subscript):
            return self.is_tainted(fi, e.value)
        if isinstance(e, ast.IfExp):
            return self.is_tainted(fi, e.body) or self.is_tainted(fi, e.orelse)
        if isinstance(e, ast.Call) and isinstance(e.func, ast.Attribute) and e.func.attr in DICT_METHODS:
            return self.is_tainted(fi, e.func.value)
        return False

    def _fix(self):
        changed = True
        rounds = 0
        while changed:
            changed = False
            rounds += 1
            if rounds > 30:
                raise AnalysisError('configuration taint did not converge')
            for fi in self.funcs:
                t = self.tainted[fi.qual]
                before = len(t)
                for n in walk_no_nested(fi.node):
                    if isinstance(n, ast.Assign) and self.is_tainted(fi, n.value):
                        for tg in n.targets:
                            for x in ast.walk(tg):
                                if isinstance(x, ast.Name):
                                    t.add(x.id)
                    elif isinstance(n, (ast.For, ast.comprehension)) and self.is_tainted(fi, n.iter):
                        for x in ast.walk(n.target):
                            if isinstance(x, ast.Name):
                                t.add(x.id)
                    elif isinstance(n, ast.Call):
                        r = self.res.resolve_call(n, fi, count=False)
                        for tgt in r.targets:
                            if tgt.module.name != CFG_MOD:
                                continue
                            params = tgt.call_params()
                            for i, a in enumerate(n.args):
                                if i < len(params) and self.is_tainted(fi, a):
                                    if params[i] not in self.tainted[tgt.qual]:
                                        self.tainted[tgt.qual].add(params[i])
                                        changed = True
                            for kw in n.keywords:
                                if kw.arg and self.is_tainted(fi, kw.value) and kw.arg not in self.tainted[tgt.qual]:
                                    self.tainted[tgt.qual].add(kw.arg)
                                    changed = True
                if len(t) != before:
                    changed = True

    # ----------------------------------------------------------------- catalogue extension
    def effects(self, fi, node, x):
        if fi.module.name != CFG_MOD:
            return []
        out = []

        def base_name(e):
            return e.id if isinstance(e, ast.Name) else None

        if isinstance(x, ast.Call) and isinstance(x.func, ast.Attribute) and self.is_tainted(fi, x.func.value):
            recv = x.func.value
            nm = base_name(recv)
            ok = nm is not None and x.func.attr in DICT_METHODS and self.is_refined(fi, nm, x, ('dict', 'OrderedDict'))
            if not ok:
                out.append(('AttributeError', 'untyped configuration value: %s' % src(x)[:60], x))
        if isinstance(x, ast.Subscript) and isinstance(x.ctx, ast.Load):
            if self.is_tainted(fi, x.value):
                nm = base_name(x.value)
                if not (nm and self.is_refined(fi, nm, x, ('dict', 'list', 'OrderedDict'))):
                    out.append(('TypeError', 'subscript of untyped configuration value: %s' % src(x)[:60], x))
            elif not isinstance(x.slice, ast.Slice) and self.is_tainted(fi, x.slice):
                out.append(('TypeError', 'untyped configuration value used as dictionary key: %s' % src(x)[:60], x))
        if isinstance(x, ast.Compare) and any(isinstance(o, (ast.In, ast.NotIn)) for o in x.ops):
            for c in x.comparators:
                if self.is_tainted(fi, c):
                    nm = base_name(c)
                    if not (nm and self.is_refined(fi, nm, x, ('dict', 'list', 'str', 'OrderedDict'))):
                        out.append(('TypeError', 'membership test on untyped configuration value: %s' % src(x)[:60], x))
        if node.kind == 'iter' and x is node.ast.iter:
            it = x
            if isinstance(it, ast.Call) and isinstance(it.func, ast.Attribute) and it.func.attr in DICT_METHODS:
                pass    # the method call itself carries the AttributeError
            elif self.is_tainted(fi, it):
                nm = base_name(it)
                if not (nm and self.is_refined(fi, nm, it, ('dict', 'list', 'str', 'OrderedDict'))):
                    out.append(('TypeError', 'iteration over untyped configuration value: %s' % src(it)[:60], it))
        if isinstance(x, ast.Call):
            r = self.res.resolve_call(x, fi, count=False)
            if r.kind == 'lib' and r.lib == 'socket.getaddrinfo' and x.args and self.is_tainted(fi, x.args[0]):
                out.append(('TypeError', 'getaddrinfo(%s) on a non-string' % src(x.args[0])[:30], x))
                out.append(('UnicodeError', 'getaddrinfo(%s) on an over-long label' % src(x.args[0])[:30], x))
        return out


# ------------------------------------------------------------------------------- B2 helpers
def conf_reads(expr, dict_names):
    """[(key, default expr | MANDATORY)] for every `d.get(K, D)` / `d[K]` on one of dict_names"""
    out = []
    for x in ast.walk(expr):
        if isinstance(x, ast.Call) and isinstance(x.func, ast.Attribute) and x.func.attr == 'get' \
                and isinstance(x.func.value, ast.Name) and x.func.value.id in dict_names and x.args \
                and isinstance(x.args[0], ast.Constant):
            out.append((x.args[0].value, x.args[1] if len(x.args) > 1 else None))
        elif isinstance(x, ast.Subscript) and isinstance(x.value, ast.Name) and x.value.id in dict_names \
                and isinstance(x.slice, ast.Constant):
            out.append((x.slice.value, MANDATORY))
    return out


def default_value(ctx, fi, d):
    if d is MANDATORY:
        return MANDATORY
    if d is None:
        return None
    try:
        return ctx.prog.const_eval(d, fi.module, fi.cls)
    except AnalysisError:
        return src(d)


# field -> (reads as {(key, default)}, callee names that must wrap the value)
IKE_FIELDS = {
    'my_addr': ({('my_addr', MANDATORY)}, {'_load_ip_address'}),
    'peer_addr': ({('peer_addr', MANDATORY)}, {'_load_ip_address'}),
    'my_auth': ({('my_auth', MANDATORY)}, {'_load_auth_conf'}),
    'peer_auth': ({('peer_auth', MANDATORY)}, {'_load_auth_conf'}),
    'lifetime': ({('lifetime', 900)}, {'int'}),
    'dpd': ({('dpd', 60)}, {'int'}),
}
IKE_ALGS = [('encr', ['aes256'], '_encr_name_to_transform'), ('integ', ['sha256'], '_integ_name_to_transform'),
            ('prf', ['sha256'], '_prf_name_to_transform'), ('dh', ['14'], '_dh_name_to_transform')]
IPSEC_FIELDS = {
    'lifetime': ({('lifetime', 300)}, {'int'}),
    'mode': ({('mode', 'tunnel')}, {'_load_from_dict'}),
    'my_ts': ({('my_subnet', 'ikeconf.my_addr'), ('my_port', 0), ('ip_proto', 'any')},
              {'from_network', '_load_ip_network', 'int', '_load_from_dict'}),
    'peer_ts': ({('peer_subnet', 'ikeconf.peer_addr'), ('peer_port', 0), ('ip_proto', 'any')},
                {'from_network', '_load_ip_network', 'int', '_load_from_dict'}),
}
IPSEC_ALGS = [('encr', ['aes256'], '_encr_name_to_transform'), ('integ', ['sha256'], '_integ_name_to_transform'),
              ('dh', [], '_dh_name_to_transform')]

# name tables: name -> (transform type, id, keylen)
T_ENCR, T_PRF, T_INTEG, T_DH = 1, 2, 3, 4
NAME_TABLES = {
    '_encr_name_to_transform': {'aes128': (T_ENCR, 12, 128), 'aes256': (T_ENCR, 12, 256)},
    '_integ_name_to_transform': {'sha1': (T_INTEG, 2, None), 'sha256': (T_INTEG, 12, None), 'sha512': (T_INTEG, 14, None)},
    '_prf_name_to_transform': {'sha1': (T_PRF, 2, None), 'sha256': (T_PRF, 5, None), 'sha512': (T_PRF, 7, None)},
    '_dh_name_to_transform': dict([(str(n), (T_DH, n, None)) for n in range(14, 22)] + [
        ('modp2048', (T_DH, 14, None)), ('modp3072', (T_DH, 15, None)), ('modp4096', (T_DH, 16, None)),
        ('modp6144', (T_DH, 17, None)), ('modp8192', (T_DH, 18, None)), ('ecp256', (T_DH, 19, None)),
        ('ecp384', (T_DH, 20, None)), ('ecp521', (T_DH, 21, None))]),
}
ENUM_TABLES = {
    '_ip_proto_name_to_enum': {'tcp': 6, 'any': 0, 'udp': 17, 'icmp': 1},
    '_mode_name_to_enum': {'transport': 0, 'tunnel': 1},
    '_ipsec_proto_name_to_enum': {'esp': 3, 'ah': 2},
}


def ctor_calls(fi, name):
    return [c for c in calls_in(fi.node) if isinstance(c.func, ast.Name) and c.func.id == name]


def check_field(ctx, fi, dict_names, ntname, field, expr, spec):
    reads_exp, wrappers = spec
    e = inline(ctx.res, fi, expr, depth=5, stop=frozenset(dict_names) | {'ikeconf'})
    reads = set((k, default_value(ctx, fi, d)) for k, d in conf_reads(e, dict_names))
    ctx.check(reads == reads_exp, 'B2', '%s.%s is read from %s' % (
        ntname, field, ', '.join('%r (default %s)' % (k, 'none: mandatory' if d is MANDATORY else repr(d))
                                 for k, d in sorted(reads_exp, key=str))),
        key=('B2', ntname, field, 'reads'), site=ctx.site(fi, expr), detail={'found': sorted(map(str, reads))})
    names = set(callee_name(c) for c in calls_in(e))
    ctx.check(wrappers <= names, 'B2', '%s.%s goes through %s' % (ntname, field, ', '.join(sorted(wrappers))),
              key=('B2', ntname, field, 'conversion'), site=ctx.site(fi, expr),
              detail={'found': sorted(n for n in names if n)})


def check_alg_list(ctx, fi, dict_names, what, name_expr, key, default, table, allow_empty_override=None):
    """operand of the proposal's transform concatenation: `_load_crypto_algs(key, d.get(key, default), table)`"""
    defs = ctx.res.local_defs(fi).get(name_expr.id, []) if isinstance(name_expr, ast.Name) else [name_expr]
    loads = [d for d in defs if isinstance(d, ast.Call) and callee_name(d) == '_load_crypto_algs']
    others = [d for d in defs if d not in loads]
    ok = len(loads) == 1
    if ok:
        c = loads[0]
        rd = conf_reads(c, dict_names)
        ok = (len(c.args) == 3 and isinstance(c.args[0], ast.Constant) and c.args[0].value == key
              and len(rd) == 1 and rd[0][0] == key and default_value(ctx, fi, rd[0][1]) == default
              and src(c.args[2]) == table)
    ctx.check(ok, 'B2', '%s: `%s` algorithms come from key %r (default %r) through %s' % (what, key, key, default, table),
              key=('B2', what, key, 'alg-list'), site=ctx.site(fi, name_expr))
    if allow_empty_override is None:
        ctx.check(not others, 'B2', '%s: the `%s` list is not replaced after loading' % (what, key),
                  key=('B2', what, key, 'alg-override'), site=ctx.site(fi, name_expr))
    else:
        good = len(others) == 1 and isinstance(others[0], ast.List) and not others[0].elts and allow_empty_override()
        ctx.check(good, 'B2', '%s: the `%s` list is emptied exactly when the IPsec protocol is AH' % (what, key),
                  key=('B2', what, key, 'ah-drops-encr'), site=ctx.site(fi, name_expr))


def run(ctx):
    prog, res = ctx.prog, ctx.res
    init = ctx.func(CLS + '.__init__')
    taint = Taint(ctx)
    ctx.floor('B1 functions holding untyped configuration values',
              sum(1 for q, s in taint.tainted.items() if s), 6)
    ctx.stats['B1 tainted names'] = {q: sorted(s) for q, s in taint.tainted.items() if s}
    esc = ctx.escape('c19', kills=common.crypto_kills(ctx), extra_effects=taint.effects)

    # ---------------------------------------------------------------- B1
    family = 'ConfigurationError'
    ctx.require(esc.hier.known(family), 'anchor vanished: ConfigurationError')
    reach = esc.reach([init])
    for q in reach:
        ctx.functions.add(q)
    ctx.floor('B1 functions in the reach of Configuration.__init__', len(reach), 12)
    neff = ntaint = 0
    for q in reach:
        f = prog.functions.get(q)
        if f is None:
            continue
        dmap, _ = esc.direct(f)
        for effs in dmap.values():
            neff += len(effs)
            ntaint += sum(1 for e in effs if 'configuration value' in e[1] or 'getaddrinfo' in e[1])
    ctx.floor('B1 catalogue effects in the reach', neff, 25)
    ctx.floor('B1 untyped-value effects in the reach', ntaint, 12)
    escaping = esc.escapes(init)
    ctx.floor('B1 exception classes leaving Configuration.__init__', len(escaping), 1)
    bad = 0
    for exc, origins in sorted(escaping.items()):
        if esc.hier.is_sub(exc, family):
            ctx.ok('B1', 'escaping class %s is a configuration error (%d raise sites)' % (exc, len(origins)))
            continue
        for origin, chain in origins.items():
            bad += 1
            ctx.bad('B1', ('B1', exc, origin), 'Configuration(...) can fail with %s (not ConfigurationError): %s' % (
                exc, origin), chain[-1].split(' ')[0], {'witness': chain})
    if not bad:
        ctx.ok('B1', '%d catalogue effects (%d on untyped values) in %d functions are all mapped to ConfigurationError'
               % (neff, ntaint, len(reach)), ctx.site(init, init.node))
    # the positive control: the taint catalogue fires on a fixture
    fx = positive_control(ctx)
    ctx.require(fx, 'positive control failed: taint catalogue does not report the unguarded fixture')

    # ---------------------------------------------------------------- B2
    like = ctx.func(CLS + '._load_ike_conf')
    lips = ctx.func(CLS + '._load_ipsec_conf')
    lauth = ctx.func(CLS + '._load_auth_conf')
    ike_fields = namedtuple_fields(prog, CFG_MOD, 'IkeConfiguration')
    ips_fields = namedtuple_fields(prog, CFG_MOD, 'IpsecConfiguration')
    auth_fields = namedtuple_fields(prog, CFG_MOD, 'AuthConfiguration')
    ctx.require(set(IKE_FIELDS) | {'name', 'proposal', 'protect'} == set(ike_fields),
                'IkeConfiguration fields changed: %s' % ike_fields)
    ctx.require(set(IPSEC_FIELDS) | {'index', 'proposal'} == set(ips_fields), 'IpsecConfiguration fields changed: %s' % ips_fields)
    ctx.require(set(auth_fields) == {'psk', 'id', 'privkey', 'pubkey'}, 'AuthConfiguration fields changed: %s' % auth_fields)

    def dict_param(fi, idx):
        ps = fi.call_params()
        ctx.require(len(ps) > idx, 'anchor vanished: parameters of %s' % fi.qual)
        return ps[idx]

    # --- IKE level
    d_ike = {dict_param(like, 1)}
    calls = ctor_calls(like, 'IkeConfiguration')
    ctx.floor('B2 IkeConfiguration(...) construction', len(calls), 1)
    for c in calls:
        kw = kwargs_of(c, names=ike_fields)
        for f, spec in IKE_FIELDS.items():
            ctx.require(f in kw, 'IkeConfiguration(...) without %s' % f)
            check_field(ctx, like, d_ike, 'IkeConfiguration', f, kw[f], spec)
        ctx.check(src(kw.get('name')) == like.call_params()[0], 'B2', 'IkeConfiguration.name is the connection name',
                  key=('B2', 'IkeConfiguration', 'name'), site=ctx.site(like, c))
        check_proposal(ctx, like, d_ike, 'IKE proposal', kw.get('proposal'), 'IKE', IKE_ALGS, False)
        ctx.check(isinstance(kw.get('protect'), ast.List) and not kw['protect'].elts, 'B2',
                  'IkeConfiguration.protect starts empty and is filled from the protect entries',
                  key=('B2', 'IkeConfiguration', 'protect-init'), site=ctx.site(like, c))
    # protect loop
    loops = [n for n in walk_no_nested(like.node) if isinstance(n, ast.For)]
    good = False
    for lp in loops:
        rd = conf_reads(lp.iter, d_ike)
        if rd == [('protect', MANDATORY)] and src(lp.iter) == '%s[%r]' % (list(d_ike)[0], 'protect'):
            body = [s for s in lp.body]
            ap = [c for c in calls_in(lp) if callee_name(c) == 'append' and src(c.func.value).endswith('.protect')]
            good = len(ap) == 1 and len(body) == 1 and ap[0].args and isinstance(ap[0].args[0], ast.Call) \
                and callee_name(ap[0].args[0]) == '_load_ipsec_conf' and len(ap[0].args[0].args) == 2 \
                and src(ap[0].args[0].args[1]) == src(lp.target)
    ctx.check(good, 'B2', 'every entry of the mandatory `protect` list is loaded, in order, into IkeConfiguration.protect',
              key=('B2', 'protect-loop'), site=ctx.site(like, like.node))
    # keyed by (my_addr, peer_addr)
    keyed = [n for n in walk_no_nested(init.node) if isinstance(n, ast.Assign) and isinstance(n.targets[0], ast.Subscript)
             and src(n.targets[0].value) == 'self.ike_configurations']
    ctx.floor('B2 ike_configurations[...] = ... store', len(keyed), 1)
    for n in keyed:
        k = n.targets[0].slice
        v = src(n.value)
        ctx.check(isinstance(k, ast.Tuple) and [src(e) for e in k.elts] == [v + '.my_addr', v + '.peer_addr'], 'B2',
                  'connections are keyed by (my_addr, peer_addr) of the loaded connection', key=('B2', 'keyed-by'),
                  site=ctx.site(init, n))
    gic = ctx.func(CLS + '.get_ike_configuration')
    subs = [x for x in walk_no_nested(gic.node) if isinstance(x, ast.Subscript)
            and src(x.value) == 'self.ike_configurations']
    ps = gic.call_params()
    ctx.check(len(subs) == 1 and isinstance(subs[0].slice, ast.Tuple) and [src(e) for e in subs[0].slice.elts] == ps[:2],
              'B2', 'lookup uses the same (local, peer) key order', key=('B2', 'lookup-key'), site=ctx.site(gic, gic.node))

    # --- IPsec level
    d_ips = {dict_param(lips, 1)}
    ikeconf_name = dict_param(lips, 0)
    ctx.require(ikeconf_name == 'ikeconf', 'parameter of _load_ipsec_conf renamed: adapt IPSEC_FIELDS defaults')
    calls = ctor_calls(lips, 'IpsecConfiguration')
    ctx.floor('B2 IpsecConfiguration(...) construction', len(calls), 1)
    for c in calls:
        kw = kwargs_of(c, names=ips_fields)
        for f, spec in IPSEC_FIELDS.items():
            ctx.require(f in kw, 'IpsecConfiguration(...) without %s' % f)
            check_field(ctx, lips, d_ips, 'IpsecConfiguration', f, kw[f], spec)
        # orientation inside from_network: (subnet, port, proto) of the same side
        for f, side in (('my_ts', 'my'), ('peer_ts', 'peer')):
            e = inline(res, lips, kw[f], 5, frozenset(d_ips) | {'ikeconf'})
            okf = isinstance(e, ast.Call) and callee_name(e) == 'from_network' and len(e.args) == 3
            if okf:
                r0 = [k for k, _ in conf_reads(e.args[0], d_ips)]
                r1 = [k for k, _ in conf_reads(e.args[1], d_ips)]
                r2 = [k for k, _ in conf_reads(e.args[2], d_ips)]
                okf = r0 == [side + '_subnet'] and r1 == [side + '_port'] and r2 == ['ip_proto']
            ctx.check(okf, 'B2', 'IpsecConfiguration.%s = from_network(%s_subnet, %s_port, ip_proto)' % (f, side, side),
                      key=('B2', 'IpsecConfiguration', f, 'orientation'), site=ctx.site(lips, kw[f]))
        # index
        e = inline(res, lips, kw['index'], 4, frozenset(d_ips))
        rd = conf_reads(e, d_ips)
        ctx.check(len(rd) == 1 and rd[0][0] == 'index' and rd[0][1] is not MANDATORY and rd[0][1] is not None
                  and 'random' in src(rd[0][1]) and 'int' in set(callee_name(x) for x in calls_in(e)), 'B2',
                  'IpsecConfiguration.index is the configured index, or a random one when absent',
                  key=('B2', 'IpsecConfiguration', 'index'), site=ctx.site(lips, kw['index']))
        # tables used by mode / ip_proto / ipsec_proto
        for f, table in (('mode', '_mode_name_to_enum'),):
            e = inline(res, lips, kw[f], 4, frozenset(d_ips))
            ctx.check(isinstance(e, ast.Call) and callee_name(e) == '_load_from_dict' and len(e.args) == 2
                      and src(e.args[1]) == table, 'B2', 'IpsecConfiguration.%s is looked up in %s' % (f, table),
                      key=('B2', 'IpsecConfiguration', f, 'table'), site=ctx.site(lips, kw[f]))
        ipd = single_def(res, lips, 'ip_proto')
        ctx.check(isinstance(ipd, ast.Call) and callee_name(ipd) == '_load_from_dict' and len(ipd.args) == 2
                  and src(ipd.args[1]) == '_ip_proto_name_to_enum', 'B2', 'ip_proto is looked up in _ip_proto_name_to_enum',
                  key=('B2', 'ip_proto', 'table'), site=ctx.site(lips, lips.node))
        check_proposal(ctx, lips, d_ips, 'IPsec proposal', kw.get('proposal'), None, IPSEC_ALGS, True)

    # --- auth level
    d_auth = {dict_param(lauth, 0)}
    dn = list(d_auth)[0]
    calls = ctor_calls(lauth, 'AuthConfiguration')
    ctx.floor('B2 AuthConfiguration(...) construction', len(calls), 1)
    for c in calls:
        kw = kwargs_of(c, names=auth_fields)

        def optional(field, key, wrapper):
            e = kw.get(field)
            ok = isinstance(e, ast.IfExp) and src(e.test) == '%r in %s' % (key, dn) and tuple(
                k for k, _ in conf_reads(e.body, d_auth)) == (key,) and isinstance(e.orelse, ast.Constant) \
                and e.orelse.value is None
            if ok:
                names = [callee_name(x) for x in calls_in(e.body)]
                ok = 'encode' in names and (wrapper is None or wrapper in names)
                others = {'RsaPublicKey', 'RsaPrivateKey'} - {wrapper}
                ok = ok and not (others & set(names))
            ctx.check(ok, 'B2', 'AuthConfiguration.%s is the encoded %r value%s when present, else None' % (
                field, key, ' loaded by %s' % wrapper if wrapper else ''), key=('B2', 'AuthConfiguration', field),
                site=ctx.site(lauth, c))
        optional('psk', 'psk', None)
        optional('pubkey', 'pubkey', 'RsaPublicKey')
        optional('privkey', 'privkey', 'RsaPrivateKey')
        e = inline(res, lauth, kw.get('id'), 4, frozenset(d_auth))
        rd = conf_reads(e, d_auth)
        ctx.check(isinstance(e, ast.Call) and callee_name(e) == '_get_payload_id' and len(rd) == 1 and rd[0][0] == 'id'
                  and isinstance(rd[0][1], ast.Constant) and isinstance(rd[0][1].value, str), 'B2',
                  'AuthConfiguration.id is the typed `id` value (a fixed default when absent)',
                  key=('B2', 'AuthConfiguration', 'id'), site=ctx.site(lauth, c))
    check_payload_id(ctx)
    check_crypto_algs(ctx)
    check_tables(ctx)

    # ---------------------------------------------------------------- B3
    g = esc.add_exception_edges(like)
    conds = []
    for n in g.nodes:
        if n.kind != 'cond':
            continue
        cp = compare_parts(n.ast)
        if cp and cp[1] is ast.NotIn and src(cp[0]).endswith('.my_addr') and src(cp[2]) == like.call_params()[2]:
            conds.append(n)
    ctx.check(bool(conds), 'B3', '_load_ike_conf tests the connection\'s my_addr for membership in the listening addresses',
              key=('B3', 'no-membership-test'), site=ctx.site(like, like.node))
    for c in conds:
        tnodes = [m for lab, m in c.succ if lab == 'T']
        raises = all(isinstance(m.ast, ast.Raise) and 'ConfigurationError' in src(m.ast) for m in tnodes)
        ctx.check(raises, 'B3', '`%s` raises ConfigurationError' % src(c.ast), key=('B3', 'raise'), site=ctx.site(like, c.ast))
        rets = [n for n in g.nodes if n.kind == 'stmt' and isinstance(n.ast, ast.Return)]
        ctx.check(bool(rets) and all(common.dominated_by_edge(g, r, c, 'F') for r in rets) and
                  g.exit.id not in g.reach([g.entry], blocked_nodes=[c], follow_exc=False), 'B3',
                  'every normal return of _load_ike_conf passes the membership test of my_addr in the listening addresses',
                  key=('B3', 'dominates'), site=ctx.site(like, c.ast))
        subj = src(compare_parts(c.ast)[0]).rsplit('.', 1)[0]
        d = single_def(res, like, subj)
        ctx.check(isinstance(d, ast.Call) and callee_name(d) == 'IkeConfiguration', 'B3',
                  'the tested address is the one of the connection being loaded', key=('B3', 'subject'),
                  site=ctx.site(like, c.ast))
    # the listening addresses reach _load_ike_conf unchanged
    cs = [c for c in calls_in(init.node) if callee_name(c) == '_load_ike_conf']
    ctx.floor('B3 _load_ike_conf call', len(cs), 1)
    for c in cs:
        ctx.check(len(c.args) == 3 and src(c.args[2]) == init.call_params()[0], 'B3',
                  'the listening addresses given to Configuration(...) are the ones tested', key=('B3', 'addresses-arg'),
                  site=ctx.site(init, c))
    ctx.stats['uncatalogued library calls'] = sorted(esc.uncatalogued)


def check_proposal(ctx, fi, dict_names, what, expr, proto, algs, ipsec):
    res = ctx.res
    ok = isinstance(expr, ast.Call) and callee_name(expr) == 'Proposal' and len(expr.args) == 4
    ctx.check(ok, 'B2', '%s is built as Proposal(num, protocol, spi, transforms)' % what, key=('B2', what, 'shape'),
              site=ctx.site(fi, expr if expr is not None else fi.node))
    if not ok:
        return
    ctx.check(isinstance(expr.args[0], ast.Constant) and expr.args[0].value == 1 and isinstance(expr.args[2], ast.Constant)
              and expr.args[2].value == b'', 'B2', '%s has number 1 and an empty SPI' % what, key=('B2', what, 'num-spi'),
              site=ctx.site(fi, expr))
    if proto is not None:
        ctx.check(src(expr.args[1]) == 'Proposal.Protocol.' + proto, 'B2', '%s has protocol %s' % (what, proto),
                  key=('B2', what, 'protocol'), site=ctx.site(fi, expr))
    else:
        d = single_def(res, fi, src(expr.args[1]))
        rd = conf_reads(d, dict_names) if isinstance(d, ast.AST) else []
        ctx.check(isinstance(d, ast.Call) and callee_name(d) == '_load_from_dict' and len(rd) == 1
                  and rd[0][0] == 'ipsec_proto' and default_value(ctx, fi, rd[0][1]) == 'esp'
                  and src(d.args[1]) == '_ipsec_proto_name_to_enum', 'B2',
                  '%s has the configured ipsec_proto (default esp)' % what, key=('B2', what, 'protocol'),
                  site=ctx.site(fi, expr))
    ops = flatten_add(expr.args[3])
    want = len(algs) + (1 if ipsec else 0)
    ctx.check(len(ops) == want, 'B2', '%s concatenates exactly %d transform lists' % (what, want),
              key=('B2', what, 'concat-len'), site=ctx.site(fi, expr))
    if len(ops) != want:
        return
    for op, (key, default, table) in zip(ops, algs):
        over = None
        if ipsec and key == 'encr':
            pname = src(expr.args[1])

            def over(pname=pname, fi=fi):
                for n in walk_no_nested(fi.node):
                    if isinstance(n, ast.If) and not n.orelse and len(n.body) == 1 and isinstance(n.body[0], ast.Assign) \
                            and src(n.body[0].targets[0]) == 'encr':
                        cp = compare_parts(n.test)
                        if cp and cp[1] is ast.Eq and {src(cp[0]), src(cp[2])} == {pname, 'Proposal.Protocol.AH'}:
                            return True
                return False
        check_alg_list(ctx, fi, dict_names, what, op, key, default, table, over)
    if ipsec:
        last = ops[-1]
        d = single_def(res, fi, last.id) if isinstance(last, ast.Name) else last
        ok = isinstance(d, ast.List) and len(d.elts) == 1 and isinstance(d.elts[0], ast.Call) \
            and callee_name(d.elts[0]) == 'Transform' and [src(a) for a in d.elts[0].args] == [
                'Transform.Type.ESN', 'Transform.EsnId.NO_ESN']
        ctx.check(ok, 'B2', '%s ends with the NO_ESN transform' % what, key=('B2', what, 'no-esn'), site=ctx.site(fi, expr))


def check_payload_id(ctx):
    fi = ctx.func(CLS + '._get_payload_id')
    p = fi.call_params()[0]
    tries = [n for n in walk_no_nested(fi.node) if isinstance(n, ast.Try)]
    ok = len(tries) == 1
    if ok:
        t = tries[0]
        rets = [n for n in ast.walk(ast.Module(body=t.body, type_ignores=[])) if isinstance(n, ast.Return)]
        ok = len(rets) == 1 and isinstance(rets[0].value, ast.Call) and callee_name(rets[0].value) == 'PayloadID'
        if ok:
            a = rets[0].value.args
            ty = inline(ctx.res, fi, a[0], 3) if len(a) == 2 else None
            addr = [n for n in t.body if isinstance(n, ast.Assign) and isinstance(n.value, ast.Call)
                    and callee_name(n.value) == 'ip_address' and src(n.value.args[0]) == p]
            ok = len(a) == 2 and len(addr) == 1 and src(a[1]) == src(addr[0].targets[0]) + '.packed'
            if ok:
                an = src(addr[0].targets[0])
                # the type definition inside the try
                tdefs = [n.value for n in t.body if isinstance(n, ast.Assign) and src(n.targets[0]) == src(a[0])]
                tv = tdefs[0] if tdefs else ty
                ok = isinstance(tv, ast.IfExp) and (
                    (src(tv.test) == an + '.version == 4' and src(tv.body).endswith('ID_IPV4_ADDR')
                     and src(tv.orelse).endswith('ID_IPV6_ADDR'))
                    or (src(tv.test) == an + '.version == 6' and src(tv.body).endswith('ID_IPV6_ADDR')
                        and src(tv.orelse).endswith('ID_IPV4_ADDR')))
            ok = ok and all('ValueError' in src(h.type) for h in t.handlers if h.type is not None) and len(t.handlers) == 1
    ctx.check(ok, 'B2', 'an id that parses as an IP address is typed ID_IPV4_ADDR / ID_IPV6_ADDR by its version and '
              'carries the packed address', key=('B2', '_get_payload_id', 'ip'), site=ctx.site(fi, fi.node))
    ifs = [n for n in fi.node.body if isinstance(n, ast.If)]
    ok2 = False
    for n in ifs:
        cp = compare_parts(n.test)
        if cp and cp[1] is ast.In and isinstance(cp[0], ast.Constant) and cp[0].value == '@' and src(cp[2]) == p \
                and len(n.body) == 1 and len(n.orelse) == 1 and isinstance(n.body[0], ast.Assign) \
                and isinstance(n.orelse[0], ast.Assign):
            ok2 = src(n.body[0].value).endswith('ID_RFC822_ADDR') and src(n.orelse[0].value).endswith('ID_FQDN') \
                and src(n.body[0].targets[0]) == src(n.orelse[0].targets[0])
            tn = src(n.body[0].targets[0])
            last = fi.node.body[-1]
            ok2 = ok2 and isinstance(last, ast.Return) and isinstance(last.value, ast.Call) \
                and callee_name(last.value) == 'PayloadID' and [src(a) for a in last.value.args] == [tn, p + '.encode()']
    ctx.check(ok2, 'B2', 'any other id is typed ID_RFC822_ADDR when it contains "@", else ID_FQDN, and carries the '
              'encoded text', key=('B2', '_get_payload_id', 'text'), site=ctx.site(fi, fi.node))


def check_crypto_algs(ctx):
    fi = ctx.func(CLS + '._load_crypto_algs')
    ps = fi.call_params()
    ctx.require(len(ps) == 3, 'anchor vanished: _load_crypto_algs(key, names, name_to_transform)')
    loops = [n for n in walk_no_nested(fi.node) if isinstance(n, ast.For)]
    ok = len(loops) == 1 and src(loops[0].iter) == ps[1]
    if ok:
        lp = loops[0]
        aps = [c for c in calls_in(lp) if callee_name(c) == 'append']
        ok = len(aps) == 1 and not any(isinstance(n, (ast.If, ast.Continue, ast.Break)) for n in ast.walk(lp))
        if ok:
            lst = src(aps[0].func.value)
            e = inline(ctx.res, fi, aps[0].args[0], 3)
            ok = isinstance(e, ast.Call) and callee_name(e) == '_load_from_dict' and len(e.args) == 2 \
                and src(e.args[0]) == 'str(%s)' % src(lp.target) and src(e.args[1]) == ps[2]
            rets = [n for n in walk_no_nested(fi.node) if isinstance(n, ast.Return)]
            ok = ok and len(rets) == 1 and src(rets[0].value) == lst
            init = single_def(ctx.res, fi, lst)
            ok = ok and isinstance(init, ast.List) and not init.elts
    ctx.check(ok, 'B2', 'algorithm lists are translated name by name, in the listed order, without filtering or sorting',
              key=('B2', '_load_crypto_algs', 'order'), site=ctx.site(fi, fi.node))
    g = build_cfg(fi)
    guard = [n for n in g.nodes if n.kind == 'cond' and src(n.ast) in ('type(%s) is not list' % ps[1],
                                                                        'isinstance(%s, list)' % ps[1])]
    ok = False
    for c in guard:
        lab = 'F' if src(c.ast).startswith('type(') else 'T'
        loop_heads = [h for h, l in g.loops]
        ok = ok or all(common.dominated_by_edge(g, h, c, lab) for h in loop_heads)
    ctx.check(ok, 'B2', 'a value that is not a list is rejected before it is iterated', key=('B2', '_load_crypto_algs', 'guard'),
              site=ctx.site(fi, fi.node))
    lfd = ctx.func(CLS + '._load_from_dict')
    t = [n for n in walk_no_nested(lfd.node) if isinstance(n, ast.Try)]
    ok = len(t) == 1 and any('KeyError' in src(h.type) and any(isinstance(s, ast.Raise) and 'ConfigurationError' in src(s)
                                                               for s in h.body) for h in t[0].handlers if h.type is not None)
    ps = lfd.call_params()
    ok = ok and any(isinstance(s, ast.Return) and src(s.value) == '%s[%s]' % (ps[1], ps[0]) for s in t[0].body)
    ctx.check(ok, 'B2', 'an unknown name is refused with ConfigurationError and a known one returns its table entry',
              key=('B2', '_load_from_dict'), site=ctx.site(lfd, lfd.node))


def check_tables(ctx):
    prog = ctx.prog
    m = prog.module(CFG_MOD)
    n = 0
    for tname, want in NAME_TABLES.items():
        d = m.consts.get(tname)
        ctx.require(isinstance(d, ast.Dict), 'anchor vanished: table %s' % tname)
        have = {}
        for k, v in zip(d.keys, d.values):
            ctx.require(isinstance(k, ast.Constant) and isinstance(v, ast.Call) and callee_name(v) == 'Transform',
                        'table %s has an entry that is not name -> Transform(...)' % tname)
            args = [prog.const_eval(a, m) for a in v.args]
            args += [None] * (3 - len(args))
            for kwd in v.keywords:
                if kwd.arg == 'keylen':
                    args[2] = prog.const_eval(kwd.value, m)
            have[k.value] = tuple(args[:3])
        for name, val in want.items():
            n += 1
            ctx.check(have.get(name) == val, 'B2', '%s[%r] = Transform(type %d, id %d%s)' % (
                tname, name, val[0], val[1], ', keylen %d' % val[2] if val[2] else ''),
                key=('B2', 'table', tname, name), site='%s:%s' % ('configuration.py', d.lineno), detail={'found': have.get(name)})
        extra = sorted(set(have) - set(want))
        if extra:
            ctx.note('%s has undocumented extra names %s (not checked)' % (tname, extra))
    for tname, want in ENUM_TABLES.items():
        d = m.consts.get(tname)
        ctx.require(isinstance(d, ast.Dict), 'anchor vanished: table %s' % tname)
        have = {k.value: prog.const_eval(v, m) for k, v in zip(d.keys, d.values) if isinstance(k, ast.Constant)}
        for name, val in want.items():
            n += 1
            ctx.check(have.get(name) == val, 'B2', '%s[%r] = %d' % (tname, name, val), key=('B2', 'table', tname, name),
                      site='configuration.py:%s' % d.lineno, detail={'found': have.get(name)})
    ctx.floor('B2 name-table entries checked', n, 32)


FIXTURE = '''
class ConfigurationError(Exception):
    pass


class Configuration(object):
    def __init__(self, my_addresses, conf_dict):
        self.out = {}
        for name, d in conf_dict.items():
            try:
                self.out[name] = self._load(d)
            except KeyError as ex:
                raise ConfigurationError(str(ex))

    def _load(self, conf_dict):
        return int(conf_dict.get('lifetime', 5)), conf_dict['psk'].encode()
'''


def positive_control(ctx):
    """the taint catalogue + escape analysis must report AttributeError/TypeError/ValueError on a
    miniature loader with no boundary mapping"""
    import os
    import tempfile
    from ..driver import Ctx
    with tempfile.TemporaryDirectory() as d:
        with open(os.path.join(d, 'configuration.py'), 'w') as f:
            f.write(FIXTURE)
        c2 = Ctx('C19', root=d, quiet=True, normalise=False)
        t = Taint(c2)
        e = c2.escape('fx', extra_effects=t.effects)
        got = set(e.escapes(c2.prog.func(CLS + '.__init__')))
    return {'AttributeError', 'TypeError', 'ValueError'} <= got


MANIFEST = {
    'level': 'All-paths static decision of the error discipline inside the catalogue envelope: the exception-escape set of '
             'Configuration.__init__, computed with a YAML-untyped taint catalogue (every attribute access, subscription, '
             'iteration, membership test, dictionary-key use, int(), ip_network(), getaddrinfo(), .encode() and PEM load '
             'on a value read from the dictionary may fail as for a wrongly typed operand), contains only '
             'ConfigurationError; plus a provenance check of every configuration-tuple field against the documented '
             'key / default / conversion table, the algorithm name tables evaluated entry by entry, list order, '
             'AH-drops-ENCR, NO_ESN, the (my_addr, peer_addr) key and the my_addr membership gate.',
    'note': 'Trusted: effect catalogue, the documented mapping transcribed from README/example.yaml/property text. '
            'Declined: the grammar of all dictionaries as runtime inputs.',
    'technique': 'exception-escape analysis with configuration taint + provenance/table conformance',
    'design_ref': 'DESIGN.md 3/C19',
}
