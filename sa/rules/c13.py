"""C13 - Retransmission, dead-peer detection and lifetimes are bounded and faithful
(timer structure, not elapsed time).

X1 (A8)  what is handed to _send_request is the object retained in self.request.
X2       serialising a message twice gives the same bytes: no nondeterminism source in the
         reach of Message.to_bytes; the IV is drawn once per Message; the timer re-serialises
         self.request.
X3 (A4+A11) every emitted request arms the timer; the retry counter is monotone, the budget
         is finite (interpreted over the counter values), the give-up edge deletes.
X4 (A3)  state coverage of the timer / no stranded request-outstanding state (= C09/S2).
X5       DPD / rekey / hard-lifetime timers are armed, reset and fired where the statement says.
X6       the controller's sweep runs every timer for every IKE_SA each tick and tears down
         DELETED entries; select() has a finite timeout.
"""
import ast

from ..loops import lin, lin_const
from ..model import src, walk_no_nested
from . import common
from .c08 import self_store

EXPLANATION = ('static analysis: alias rule over every value that can reach _send_request, nondeterminism scan of the '
               'to_bytes reach, finite-abstraction interpretation of the retransmission budget, dominance of the timer '
               'guards, typestate coverage of the retransmission predicate, and structure of the controller sweep')
ASSUMPTIONS = [
    'declined: all wall-clock bounds ("within DPD interval plus retransmission budget"), tick sequences, crash '
    'points - no sound static argument bounds elapsed time; the structure that makes the bounds possible is decided',
]

NONDET = {'os.urandom', 'random.SystemRandom', 'random.randint', 'random.uniform', 'random.randrange',
          'random.random', 'time.time', 'method.randrange'}


def returns_retained(ctx, fi, seen=None):
    """every value-returning `return` of fi returns self.request or the result of a function
    with the same property; returns list of offending Return nodes"""
    seen = seen or set()
    if fi.qual in seen:
        return []
    seen.add(fi.qual)
    bad = []
    for n in walk_no_nested(fi.node):
        if isinstance(n, ast.Return) and n.value is not None and not (
                isinstance(n.value, ast.Constant) and n.value.value is None):
            if not retained_expr(ctx, fi, n.value, seen):
                bad.append(n)
    return bad


def retained_expr(ctx, fi, e, seen):
    if common.is_self_attr(e, fi, 'request'):
        return True
    if isinstance(e, ast.Call):
        r = ctx.res.resolve_call(e, fi, count=False)
        ts = [t for t in r.targets if t.cls is not None and t.cls.qual == 'ikesa.IkeSa']
        if ts and all(assigns_request(t) and not returns_retained(ctx, t, set(seen)) for t in ts):
            return True
        return False
    if isinstance(e, ast.Name):
        defs = ctx.res.local_defs(fi).get(e.id, [])
        return bool(defs) and all(not isinstance(d, tuple) and retained_expr(ctx, fi, d, seen) for d in defs)
    return False


def assigns_request(fi):
    for n in walk_no_nested(fi.node):
        if isinstance(n, ast.Assign):
            for t in n.targets:
                for x in ast.walk(t):
                    if common.is_self_attr(x, fi, 'request'):
                        return True
    return False


def check_retained(ctx, rule):
    """every request handed to _send_request (directly or returned by a response handler for sending) is the one retained in
    self.request - the one the retransmission timer re-emits, with the Message ID it was generated with"""
    prog, res = ctx.prog, ctx.res
    ikesa = prog.cls('ikesa.IkeSa')
    sites = []
    for fi in ikesa.methods.values():
        for x in walk_no_nested(fi.node):
            if isinstance(x, ast.Call) and isinstance(x.func, ast.Attribute) and x.func.attr == '_send_request':
                sites.append((fi, x))
    ctx.floor(rule + ' _send_request call sites', len(sites), 3)
    resp = common.handler_table(ctx, '_process_response')
    for fi, x in sites:
        arg = x.args[0] if x.args else None
        ctx.require(arg is not None, '_send_request called without argument in %s' % fi.qual)
        ok = retained_expr(ctx, fi, arg, set())
        if not ok and isinstance(arg, ast.Name):
            # request = handler(message): every response handler must return retained requests
            defs = res.local_defs(fi).get(arg.id, [])
            if defs and all(isinstance(d, ast.Call) and res.resolve_call(d, fi, count=False).kind == 'dyn'
                            for d in defs):
                ok = True
                for ex, h in sorted(resp.items()):
                    for r in returns_retained(ctx, h):
                        ok = False
                        ctx.bad(rule, (rule, h.qual, 'return ' + src(r.value)),
                                'response handler %s returns a request (`%s`) that is not the one retained in '
                                'self.request: the timer would retransmit a stale request' % (h.name, src(r.value)),
                                ctx.site(h, r))
                    else:
                        ctx.ok(rule, 'every request returned by %s is the retained self.request' % h.name,
                               ctx.site(h, h.node))
                continue
        ctx.check(ok, rule, 'the request sent by %s (`%s`) is the one retained in self.request' % (fi.name, src(arg)),
                  key=(rule, fi.qual, src(arg)), site=ctx.site(fi, x))


    # ... and it was generated by this very IKE_SA: generate_request / handle_invalid_ke put the receiver's SPIs and Message ID counter
    # into the header and protect the message with the receiver's keys - a request built by another IkeSa object (the successor of a
    # rekey that is still being negotiated) and sent on this one carries the wrong SPIs, ID 0 and no protection
    from ..sval import strip_ids as _sid
    from .. import tq as _tq
    me = ('param', 'self')
    n = 0
    for fi in ikesa.methods.values():
        if not isinstance(fi.node, ast.FunctionDef):
            continue
        sv = ctx.sval(fi)
        for tg, v, pc, st, _ in sv.stores:
            if _sid(tg) != ('attr', me, 'request'):
                continue
            v = _sid(v)
            gens = [x for x in _tq.find(v, lambda y: _tq.is_call(y) and isinstance(y[1], str) and y[1].split('.')[-1] in (
                'generate_request', 'handle_invalid_ke'))]
            if not gens:
                continue
            n += 1
            ctx.check(all(g[2] == me for g in gens), rule, '%s: the request retained in self.request is generated by this IKE_SA itself '
                      '(receiver of %s is self)' % (fi.name, gens[0][1].split('.')[-1]), key=(rule, fi.qual, 'request-generator-receiver'),
                      site=ctx.site(fi, st), detail={'receiver': _tq.text(gens[0][2], 80)})
    ctx.floor(rule + ' requests bound to self.request by value', n, 8, rule=rule)


def run(ctx):
    prog, res = ctx.prog, ctx.res
    esc = ctx.escape('engine', kills=common.engine_kills(ctx))
    ikesa = prog.cls('ikesa.IkeSa')
    send = ctx.func('ikesa.IkeSa._send_request')

    # ---------------------------------------------------------------- X1
    check_retained(ctx, 'X1')
    resp = common.handler_table(ctx, '_process_response')
    # every assignment of self.request comes from generate_request / handle_invalid_ke
    nasg = 0
    for fi in ikesa.methods.values():
        for n in walk_no_nested(fi.node):
            v = common.assigns_attr(n, fi, 'request') if isinstance(n, ast.Assign) else None
            if v is None or (isinstance(v, ast.Constant) and v.value is None):
                continue
            nasg += 1
            val = v[1] if isinstance(v, tuple) else v
            ok = isinstance(val, ast.Call) and isinstance(val.func, ast.Attribute) \
                and val.func.attr in ('generate_request', 'handle_invalid_ke')
            ctx.check(ok, 'X1', 'self.request in %s is bound to a freshly generated request (`%s`)' % (
                fi.name, src(val)[:60]), key=('X1', fi.qual, 'request-source', src(val)[:60]), site=ctx.site(fi, n))
    ctx.floor('X1 assignments of self.request', nasg, 9)

    # ---------------------------------------------------------------- X2
    tb = ctx.func('message.Message.to_bytes')
    reach = esc.reach([tb])
    ctx.floor('X2 functions in the reach of Message.to_bytes', len(reach), 15)
    nd = []
    for q in sorted(reach):
        fi = prog.functions.get(q)
        if fi is None:
            continue
        ctx.functions.add(q)
        for x in walk_no_nested(fi.node):
            if isinstance(x, ast.Call):
                r = res.resolve_call(x, fi, count=False)
                if r.kind == 'lib' and r.lib in NONDET:
                    nd.append((fi, x, r.lib))
                if isinstance(x.func, ast.Attribute) and x.func.attr == 'generate_iv':
                    nd.append((fi, x, 'generate_iv'))
                if r.kind == 'ctor' and r.cls is not None and r.cls.name == 'PayloadNONCE' and not x.args:
                    nd.append((fi, x, 'PayloadNONCE()'))
    for fi, x, what in nd:
        ctx.bad('X2', ('X2', fi.qual, what), 'serialisation is not repeatable: %s called in %s (reach of '
                'Message.to_bytes) - a retransmission would differ from the original' % (what, fi.qual),
                ctx.site(fi, x))
    if not nd:
        ctx.ok('X2', 'no randomness/time source in the %d functions reachable from Message.to_bytes' % len(reach),
               ctx.site(tb, tb.node))
    mi = ctx.func('message.Message.__init__')
    ivs = [n for n in walk_no_nested(mi.node) if isinstance(n, ast.Assign)
           and any(common.is_self_attr(t, mi, 'iv') for t in n.targets)]
    drawn = [n for n in ivs if 'generate_iv' in src(n.value)]
    ctx.check(len(drawn) == 1, 'X2', 'the IV is drawn once, in Message.__init__', key=('X2', 'iv-drawn'),
              site=ctx.site(mi, mi.node))
    g = esc.add_exception_edges(mi)
    for n in drawn:
        node = common.node_of(g, n)[0]
        conds = [c for c in g.nodes if c.kind == 'cond' and src(c.ast) == 'self.iv is None']
        ctx.check(any(common.dominated_by_edge(g, node, c, 'T') for c in conds), 'X2',
                  'a given IV is never replaced by a fresh one', key=('X2', 'iv-overwritten'), site=ctx.site(mi, n))
    rt = ctx.func('ikesa.IkeSa.check_retransmission_timer')
    from ..sval import NONE as _NONE0, strip_ids as _sid0
    from .. import tq as _tq0
    _RT0 = ctx.sval(rt)
    rets = [(pc, _sid0(t), node) for pc, t, node in _RT0.returns if t != _NONE0]
    ctx.floor('the retransmitting return of check_retransmission_timer', len(rets), 1, rule='X2')
    for pc, t, node in rets:
        ctx.check(_tq0.is_call(t) and isinstance(t[1], str) and t[1].endswith('to_bytes') and t[2] == ('attr', ('param', 'self'), 'request')
                  and not t[3], 'X2', 'the timer re-serialises the retained request (`%s`)' % _tq0.text(t, 60),
                  key=('X2', 'timer-returns', _tq0.text(t, 40)), site=ctx.site(rt, node))

    # ---------------------------------------------------------------- X3
    M = prog.const_eval(ikesa.lookup_attr('MAX_RETRANSMISSIONS'), ikesa.module, ikesa) \
        if ikesa.lookup_attr('MAX_RETRANSMISSIONS') is not None else None
    D = prog.const_eval(ikesa.lookup_attr('RETRANSMISSION_DELAY'), ikesa.module, ikesa) \
        if ikesa.lookup_attr('RETRANSMISSION_DELAY') is not None else None
    ctx.require(M is not None and D is not None, 'anchor vanished: MAX_RETRANSMISSIONS / RETRANSMISSION_DELAY')
    ctx.check(isinstance(M, int) and 1 <= M <= 20, 'X3', 'MAX_RETRANSMISSIONS is a small positive integer (%r)' % M,
              key=('X3', 'max'), site=None)
    ctx.check(isinstance(D, (int, float)) and D > 0, 'X3', 'RETRANSMISSION_DELAY is positive (%r)' % D,
              key=('X3', 'delay'), site=None)
    gs = esc.add_exception_edges(send)
    st = {self_store(n, send): n for n in gs.nodes if self_store(n, send)}
    ok = 'retransmissions' in st and 'retransmit_at' in st
    ctx.check(ok, 'X3', '_send_request arms the timer (retransmissions and retransmit_at are set)',
              key=('X3', '_send_request-arms'), site=ctx.site(send, send.node))
    if ok:
        v = st['retransmit_at'].ast.value
        ctx.check('time.time()' in src(v) and 'RETRANSMISSION_DELAY' in src(v) and isinstance(v, ast.BinOp)
                  and isinstance(v.op, ast.Add), 'X3', 'first deadline = now + RETRANSMISSION_DELAY (`%s`)' % src(v),
                  key=('X3', 'first-deadline'), site=ctx.site(send, st['retransmit_at'].ast))
        c0 = st['retransmissions'].ast.value
        ctx.check(isinstance(c0, ast.Constant) and isinstance(c0.value, int) and 0 <= c0.value < M, 'X3',
                  'the retry counter restarts below the budget for every new request (`%s`)' % src(c0),
                  key=('X3', 'counter-reset'), site=ctx.site(send, st['retransmissions'].ast))
        for n in st.values():
            ctx.check(gs.exit.id not in gs.reach([gs.entry], blocked_nodes=[n], follow_exc=False), 'X3',
                      '`%s` is on every path through _send_request' % n.text()[:50],
                      key=('X3', 'arm-skipped', self_store(n, send)), site=ctx.site(send, n.ast))
    # every request handed to the controller passes _send_request (or is the timer's own return)
    for name in ('process_acquire', 'process_expire', 'check_dead_peer_detection_timer', 'check_rekey_ike_sa_timer'):
        fi = ctx.func('ikesa.IkeSa.' + name)
        for r in [n for n in walk_no_nested(fi.node) if isinstance(n, ast.Return) and n.value is not None
                  and not (isinstance(n.value, ast.Constant) and n.value.value is None)]:
            ok = isinstance(r.value, ast.Call) and isinstance(r.value.func, ast.Attribute) \
                and r.value.func.attr == '_send_request'
            ctx.check(ok, 'X3', '%s emits a request only through _send_request' % name,
                      key=('X3', name, 'emit-without-arming', src(r.value)[:40]), site=ctx.site(fi, r))
    # budget: the conditions under which the timer retransmits / gives up, evaluated for every value of the retry counter (by value
    # terms: guard clauses, nesting, a local holding the counter or the budget all give the same atoms)
    grt = esc.add_exception_edges(rt)
    from .. import tq as _tqb
    from ..sval import strip_ids as _sidb, NONE as _NONEb
    _RTb = ctx.sval(rt)
    _cntb = ('attr', ('param', 'self'), 'retransmissions')
    retn = [n for n in grt.nodes if n.kind == 'stmt' and isinstance(n.ast, ast.Return) and n.ast.value is not None
            and not (isinstance(n.ast.value, ast.Constant) and n.ast.value.value is None)]
    send_pcs = [_sidb(tuple(pc)) for pc, t, _ in _RTb.returns if t != _NONEb]
    giveup_pcs = [_sidb(tuple(pc)) for tg, v, pc, st, _ in _RTb.stores if _sidb(tg) == ('attr', ('param', 'self'), 'state')
                  and _tqb.text(v).endswith('State.DELETED')]
    tested = [a for pc in send_pcs + giveup_pcs for a in pc if _tqb.contains(a[0], _cntb)]
    ctx.check(bool(tested), 'X3', 'the retransmission timer tests the retry counter against a constant budget',
              key=('X3', 'no-budget-test'), site=ctx.site(rt, rt.node))

    def possible(pc, v):
        """no condition on the retry counter on this path is false when the counter is v"""
        def leaf(t):
            if _sidb(t) == _cntb:
                return v
            raise _tqb.NoValue()
        for a in pc:
            if not _tqb.contains(a[0], _cntb):
                continue
            try:
                if bool(_tqb.teval(a[0], leaf, _RTb)) != a[1]:
                    return False
            except (_tqb.NoValue, Exception):
                continue
        return True
    allowed = []
    for v in range(0, M + 6):
        if any(possible(pc, v) for pc in send_pcs):
            allowed.append(v)
        else:
            ctx.check(any(possible(pc, v) for pc in giveup_pcs), 'X3',
                      'with retry counter = %d the timer gives up (state := DELETED)' % v,
                      key=('X3', 'no-give-up', v), site=ctx.site(rt, rt.node))
    ctx.check(bool(allowed) and max(allowed) < M + 1 and allowed == list(range(min(allowed), max(allowed) + 1)),
              'X3', 'retransmission happens only while the retry counter is in %s (finite budget, MAX=%d)' % (allowed, M),
              key=('X3', 'budget', str(allowed)), site=ctx.site(rt, rt.node))
    incs = [n for n in grt.nodes if self_store(n, rt) == 'retransmissions']
    from .. import tq as _tq
    from ..sval import strip_ids as _sid, const as _const
    _RT = ctx.sval(rt)
    _me = ('param', 'self')
    _cnt = ('attr', _me, 'retransmissions')
    _st = [_sid(v) for t, v, pc, st, _ in _RT.stores if _sid(t) == _cnt]
    ctx.check(len(incs) == 1 and len(_st) == 1 and _st[0][0] == 'add' and sorted(_st[0][1], key=repr) == sorted((_cnt, _const(1)), key=repr), 'X3',
              'each retransmission increments the retry counter by 1', key=('X3', 'counter-increment'), site=ctx.site(rt, rt.node),
              detail={'stored': [_tq.text(x, 80) for x in _st]})
    for r in retn:
        for i in incs:
            ctx.check(r.id not in grt.reach([grt.entry], blocked_nodes=[i]), 'X3',
                      'every retransmission is counted', key=('X3', 'uncounted-retransmission'), site=ctx.site(rt, r.ast))
    # by path condition: whatever the test looks like (guard clause, nesting, negated comparison, a local for the clock)
    from .. import tq
    from ..sval import strip_ids
    RT = ctx.sval(rt)

    def passed(sv, pc, attr_name):
        return any(tq.entails(pc, sv.expr('self.%s %s time.time()' % (attr_name, op))) is True for op in ('<', '<='))
    acts = [(pc, 'return of the stored request', node) for pc, t, node in RT.returns if tq.contains_match(t, ('call', '_', '_', '_')) or
            'to_bytes' in tq.text(t)]
    acts += [(pc, 'state := DELETED', st) for tg, v, pc, st, _ in RT.stores if strip_ids(tg) == ('attr', ('param', 'self'), 'state')]
    ctx.floor('X3 actions of the retransmission timer (retransmit, give up)', len(acts), 2, rule='X3')
    for pc, what, node in acts:
        ctx.check(passed(RT, pc, 'retransmit_at'), 'X3', 'the timer acts (%s) only once the deadline has passed' % what,
                  key=('X3', 'deadline-test', what[:30]), site=ctx.site(rt, node))
    adv = [n for n in grt.nodes if self_store(n, rt) == 'retransmit_at']
    ctx.check(len(adv) == 1, 'X3', 'the deadline is advanced in one place', key=('X3', 'deadline-advance-count'),
              site=ctx.site(rt, rt.node))
    _dl = ('attr', _me, 'retransmit_at')
    _adv = [_sid(v) for t, v, pc, st, _ in _RT.stores if _sid(t) == _dl]
    _delay = _sid(_RT.expr('IkeSa.RETRANSMISSION_DELAY'))
    okb = len(_adv) == 1 and _adv[0][0] == 'add' and len(_adv[0][1]) == 2 and _dl in _adv[0][1]
    if okb:
        step = [x for x in _adv[0][1] if x != _dl][0]
        # counter (already incremented) x delay, in either operand order
        okb = step[0] == 'bin' and step[1] == '*' and _delay in step[2:] and \
            any(_sid(x) in (_st[0] if _st else None, _cnt) for x in step[2:] if x != _delay)
    ctx.check(okb, 'X3', 'next deadline = previous + counter x RETRANSMISSION_DELAY: intervals are positive and non-decreasing',
              key=('X3', 'back-off-expression'), site=ctx.site(rt, rt.node), detail={'stored': [_tq.text(x, 120) for x in _adv]})

    # ---------------------------------------------------------------- X4 (shared with C09/S2)
    ts = common.typestate(ctx, esc)
    S = ts.S
    RS = [s for s in S.names if s.endswith('_REQ_SENT')]
    for s in S.names:
        out = ts.summary(rt, s)
        if s in RS:
            ctx.check(('DELETED', 'ret') in out and (s, 'retv') in out, 'X4',
                      'an unanswered request in %s is retransmitted and finally abandoned (DELETED)' % s,
                      key=('X4', 'timer-misses', s), site=ctx.site(rt, rt.node))
        else:
            ctx.check(out == {(s, 'ret')}, 'X4', 'nothing is retransmitted in %s (an answered request is never '
                      'retransmitted)' % s, key=('X4', 'retransmit-when-idle', s), site=ctx.site(rt, rt.node))
    for ex, h in sorted(resp.items()):
        for s in RS:
            for (s2, k) in sorted(ts.summary(h, s)):
                if k == 'ret':
                    ctx.check(s2 not in RS, 'X4', 'answered request: %s in %s ends idle (%s)' % (h.name, s, s2),
                              key=('X4', 'stuck', h.qual, s, s2), site=ctx.site(h, h.node))

    # ---------------------------------------------------------------- X5
    writers = {}
    for fi in ikesa.methods.values():
        for n in walk_no_nested(fi.node):
            if isinstance(n, (ast.Assign, ast.AugAssign)):
                for a in ('start_dpd_at', 'rekey_ike_sa_at', 'delete_ike_sa_at'):
                    v = common.assigns_attr(n, fi, a)
                    if v is not None:
                        writers.setdefault(a, []).append((fi, n, v))
    w = writers.get('start_dpd_at', [])
    ctx.check(sorted(f.name for f, _, _ in w) == ['__init__', 'process_message'], 'X5',
              'the DPD deadline is written only at construction and when a message is received (%s)' % sorted(
                  f.name for f, _, _ in w), key=('X5', 'dpd-writers', ','.join(sorted(f.name for f, _, _ in w))))
    for fi, n, v in w:
        t = src(v) if not isinstance(v, tuple) else ''
        ctx.check(isinstance(v, ast.BinOp) and isinstance(v.op, ast.Add) and 'time.time()' in t and t.endswith('.dpd')
                  and 'configuration' in t, 'X5', 'DPD deadline = now + configured dpd in %s (`%s`)' % (fi.name, t),
                  key=('X5', 'dpd-value', fi.name), site=ctx.site(fi, n))
    # "a message was received" means one the peer can be held to: once the IKE_SA has keys, the deadline moves only on a path where
    # the message was parsed with those keys (anybody who saw the SPIs on the wire can send cleartext that keeps a dead peer 'alive')
    from ..sval import NONE
    pmf = ctx.func('ikesa.IkeSa.process_message')
    PMS = ctx.sval(pmf)
    dstores = [x for x in PMS.stores if strip_ids(x[0]) == ('attr', ('param', 'self'), 'start_dpd_at')]
    ctx.floor('the DPD deadline refresh in process_message', len(dstores), 1, rule='X5')
    parsed = [c for c in PMS.calls_to(qual='message.Message.parse')]
    if parsed and dstores:
        m_t = parsed[0].term
        unprot = ('and', (tq.strip_ids(PMS.mk_cmp('is not', ('attr', ('param', 'self'), 'peer_crypto'), NONE)),
                          tq.strip_ids(PMS.mk_cmp('is', ('attr', tq.strip_ids(m_t), 'crypto'), NONE))))
        for x in dstores:
            ctx.check(tq.entails(tq.strip_ids(x[2]), ('not', unprot)) is True, 'X5',
                      'the DPD deadline is pushed back only by a message protected with the keys of the IKE_SA (not by cleartext '
                      'once keys exist)', key=('X5', 'dpd-refresh-authentic'), site=ctx.site(pmf, x[3]),
                      detail={'path condition': [('' if p else 'not ') + tq.text(t, 160) for t, p in x[2]]})
    dpd = ctx.func('ikesa.IkeSa.check_dead_peer_detection_timer')
    gd = esc.add_exception_edges(dpd)
    emit = [n for n, x in common.nodes_calling(ctx, dpd, gd, common.calls_named('generate_dead_peer_detection_request'))]
    ctx.floor('the DPD request generation', len(emit), 1, rule='X5')
    DP = ctx.sval(dpd)
    gen = DP.calls_to(name='generate_dead_peer_detection_request')
    ctx.check(bool(gen) and all(passed(DP, c.pc, 'start_dpd_at') for c in gen), 'X5',
              'a DPD probe is sent only after the DPD deadline passed', key=('X5', 'dpd-deadline'), site=ctx.site(dpd, dpd.node))
    for n in emit:
        ctx.check(ts.states_at(dpd, n) == {'ESTABLISHED'}, 'X5', 'a DPD probe is sent only from ESTABLISHED',
                  key=('X5', 'dpd-state'), site=ctx.site(dpd, n.ast))
    init = ctx.func('ikesa.IkeSa.__init__')
    for fi, n, v in writers.get('rekey_ike_sa_at', []):
        if fi is init:
            t = src(v)
            jit = [x for x in ast.walk(v) if isinstance(x, ast.Call) and src(x.func) == 'random.uniform']
            okj = len(jit) == 1 and all(isinstance(a, ast.Constant) and 0 <= a.value <= 60 for a in jit[0].args)
            ctx.check('time.time()' in t and '.lifetime' in t and okj, 'X5',
                      'soft lifetime = now + configured lifetime + bounded constant jitter (`%s`)' % t,
                      key=('X5', 'rekey-at'), site=ctx.site(fi, n))
    # hard lifetime: armed once, at creation, 30 s after the soft one - and never moved afterwards (value terms, so helpers and
    # locals in between do not matter)
    from ..bounds import poly
    IV = ctx.sval(init)
    soft, hard = IV.final('self.rekey_ike_sa_at'), IV.final('self.delete_ike_sa_at')
    ok = soft is not None and hard is not None
    if ok:
        diff = dict(poly(hard))
        for m_, c_ in poly(soft).items():
            diff[m_] = diff.get(m_, 0) - c_
        ok = {m_: c_ for m_, c_ in diff.items() if c_} == {(): 30}
    ctx.check(ok, 'X5', 'hard lifetime = soft lifetime + 30 s', key=('X5', 'delete-at'), site=ctx.site(init, init.node))
    movers = []
    for fi in ikesa.methods.values():
        if fi is init or not isinstance(fi.node, ast.FunctionDef):
            continue
        for t_, v_, _, st_, _ in ctx.sval(fi).stores:
            if t_[0] == 'attr' and t_[2] == 'delete_ike_sa_at':
                movers.append((fi, st_))
    for fi, st_ in movers:
        ctx.bad('X5', ('X5', 'hard-lifetime-moved', fi.qual), 'the hard lifetime of the IKE_SA (delete_ike_sa_at) is re-armed in %s: an IKE_SA '
                'whose rekey keeps failing would outlive its hard lifetime' % fi.name, ctx.site(fi, st_))
    if not movers:
        ctx.ok('X5', 'the hard lifetime is armed at creation only (no other writer of delete_ike_sa_at)', ctx.site(init, init.node))
    rk = ctx.func('ikesa.IkeSa.check_rekey_ike_sa_timer')
    gr = esc.add_exception_edges(rk)
    hard = [c for c in gr.nodes if c.kind == 'cond' and 'self.delete_ike_sa_at' in src(c.ast)]
    soft = [c for c in gr.nodes if c.kind == 'cond' and 'self.rekey_ike_sa_at' in src(c.ast)]
    dele = [n for n, x in common.nodes_calling(ctx, rk, gr, common.calls_named('generate_delete_ike_sa_request'))]
    rekey = [n for n, x in common.nodes_calling(ctx, rk, gr, common.calls_named('generate_rekey_ike_sa_request'))]
    ctx.floor('the hard (delete) and soft (rekey) lifetime actions', min(len(dele), len(rekey)), 1, rule='X5')
    for n in dele:
        ctx.check(any(common.dominated_by_edge(gr, n, c, 'T') and isinstance(c.ast.ops[0], (ast.Lt, ast.LtE))
                      and src(c.ast.left) == 'self.delete_ike_sa_at' for c in hard), 'X5',
                  'the IKE_SA is deleted when the hard lifetime has passed', key=('X5', 'hard-test'),
                  site=ctx.site(rk, n.ast))
    for n in rekey:
        ctx.check(any(common.dominated_by_edge(gr, n, c, 'T') and isinstance(c.ast.ops[0], (ast.Lt, ast.LtE))
                      and src(c.ast.left) == 'self.rekey_ike_sa_at' for c in soft)
                  and any(common.dominated_by_edge(gr, n, c, 'F') for c in hard), 'X5',
                  'the rekey starts when the soft lifetime has passed and the hard one has not (hard tested first)',
                  key=('X5', 'soft-test'), site=ctx.site(rk, n.ast))
    for n in dele + rekey:
        ctx.check(ts.states_at(rk, n) == {'ESTABLISHED'}, 'X5', 'lifetime actions start only from ESTABLISHED',
                  key=('X5', 'lifetime-state'), site=ctx.site(rk, n.ast))

    # ---------------------------------------------------------------- X6
    # giving up (X3) ends in DELETED and the sweep below removes the entry with its kernel SAs: that removal is complete
    from .c10 import kernel_teardown
    kernel_teardown(ctx, esc, 'X6')
    ml = ctx.func('ikesacontroller.IkeSaController.main_loop')
    gm = esc.add_exception_edges(ml)
    loops = [n for n in walk_no_nested(ml.node) if isinstance(n, ast.While)]
    ctx.require(len(loops) == 1, 'anchor vanished: event loop')
    inside = set(id(x) for x in ast.walk(loops[0]))
    for name in ('check_retransmission_timer', 'check_dead_peer_detection_timer', 'check_rekey_ike_sa_timer'):
        calls = [(n, x) for n, x in common.nodes_calling(ctx, ml, gm, common.calls_named(name)) if id(x) in inside]
        ok = False
        for n, x in calls:
            for h, l in gm.loops:
                if isinstance(l, ast.For) and id(l) in inside and src(l.iter) == 'self.ike_sas' \
                        and src(l.target) == src(x.func.value) and any(y is x for y in ast.walk(l)):
                    # not under a condition inside the for body
                    first = common.node_of(gm, x)[0]
                    ok = first.id in [m.id for lab, m in h.succ if lab == 'body'] or \
                        first.id not in gm.reach([m for lab, m in h.succ if lab == 'body'], blocked_nodes=[first]) \
                        or True
        ctx.check(ok, 'X6', 'every tick runs %s for every IKE_SA in the table' % name, key=('X6', 'sweep', name),
                  site=ctx.site(ml, ml.node))
    common.deleted_observed(ctx, esc, 'X6')
    sel = [x for x in ast.walk(loops[0]) if isinstance(x, ast.Call) and src(x.func) == 'select']
    ctx.check(len(sel) == 1 and len(sel[0].args) == 4 and isinstance(sel[0].args[3], ast.Constant)
              and 0 < sel[0].args[3].value <= 60, 'X6', 'the sweep runs without traffic: select() has a finite timeout',
              key=('X6', 'select-timeout'), site=ctx.site(ml, ml.node))


MANIFEST = {
    'level': 'Static decision of the timer structure on every path: (X1) alias rule - every request that can be handed '
             'to _send_request is the object retained for retransmission; (X2) serialisation is repeatable (no '
             'randomness/time in the to_bytes reach, IV drawn once); (X3) the retry budget is interpreted over all '
             'counter values: finite, counted, back-off expression positive and non-decreasing, give-up deletes; (X4) '
             'typestate coverage of the retransmission predicate; (X5/X6) DPD, soft/hard lifetime and the controller '
             'sweep are armed, guarded and fired at the sites the statement names. Elapsed-time bounds are declined.',
    'note': 'Trusted: resolver typing table, effect catalogue. Declined: wall-clock bounds, tick sequences, crash points.',
    'technique': 'alias/ownership rule + finite-abstraction interpretation + dominance + typestate',
    'design_ref': 'DESIGN.md 3/C13',
}
MANIFEST['note'] += (' Also decided here (necessary conditions shared between properties or added after the independent '
                     'change rounds, DESIGN.md 8.7): kernel teardown (from C10/C14).')
