"""C10 - The kernel SAD always equals the CHILD_SAs the daemon tracks
(pairing and ownership of child_sas against kernel operations on every path).

P1/P5 (A8) install<->track: every path from `child_sas.append(x)` to a normal exit installs x
         (Xfrm.create_child_sa) or untracks it again (kernel delete + remove); a kernel-refusal
         exception is never swallowed on the way up without untracking.
P2       untrack<->delete: every remove/clear of child_sas is dominated by the kernel delete
         of the same element(s); delete orientation equals install orientation.
P3       hand-over at IKE_SA rekey: between `succ.child_sas = self.child_sas; self.child_sas = []`
         and the commit (state := REKEYED) nothing can raise; no other aliasing of the list.
P4 (A3)  teardown: every DELETED assignment is observed by a controller teardown site before
         the next event; trigger paths cannot assign DELETED.
P6       flush at start and stop.
"""
import ast

from ..cfg import fmt_path, path_facts
from ..model import src, walk_no_nested
from ..resolve import bind_args
from . import common

EXPLANATION = ('static analysis: acquire/release-style pairing over the tracked list child_sas with exceptional edges '
               'from the escape analysis - install/track, untrack/delete, ownership transfer at rekey, teardown '
               'observation of DELETED - decided on every CFG path of the nine functions that touch the list')
ASSUMPTIONS = [
    'declined: multi-event histories and a model SAD keyed by (daddr, proto, SPI) (runtime oracle); the per-path '
    'pairing is what makes the equality hold after every event',
    'Xfrm.delete_sa tolerates NetlinkError for an SA the kernel does not have (logged), so deleting a half-installed '
    'pair is safe',
]


def list_calls(ctx, fi, g, method):
    return [(n, x) for n, x in common.nodes_calling(ctx, fi, g, common.calls_named(method))
            if src(x.func.value).endswith('child_sas')]


def kernel_calls(ctx, fi, g, name):
    return [(n, x) for n, x in common.nodes_calling(
        ctx, fi, g, lambda c, r: any(t.qual == 'xfrm.Xfrm.' + name for t in r.targets))]


def _pc_term(pc):
    from ..sval import pc_term
    return pc_term(tuple(pc)) if pc else ('const', 'bool', True)


def kernel_teardown(ctx, esc, rule):
    """removing a CHILD_SA from the kernel cannot be cut short and cannot fail the caller: delete_child_sa asks for both SAs of the pair
    on every path that returns (whatever the kernel said about the first), and delete_sa turns a kernel refusal (the SA is already gone:
    ESRCH after a hard expire) into a report, not an exception.  The teardown of an IKE_SA and the sweep that removes DELETED
    entries both run through it."""
    from .. import tq
    dc = ctx.func('xfrm.Xfrm.delete_child_sa')
    gd = esc.add_exception_edges(dc)
    ds = kernel_calls(ctx, dc, gd, 'delete_sa')
    dsa = ctx.func('xfrm.Xfrm.delete_sa')
    for n, x in ds:
        b = bind_args(x, dsa)
        what = '(%s, %s)' % (src(b['daddr']).split('.')[-1], src(b['spi']).split('.')[-1])
        ctx.check(gd.exit.id not in gd.reach([gd.entry], blocked_nodes=[n]), rule,
                  'delete_child_sa asks the kernel to delete %s on every path that returns, whatever happened to the other half'
                  % what, key=(rule, 'delete-half-skipped', what), site=ctx.site(dc, x))
    ctx.check(len(ds) == 2, rule, 'delete_child_sa issues exactly two kernel deletions', key=(rule, 'delete-count', len(ds)),
              site=ctx.site(dc, dc.node))
    # (the same inside one expression: `delete_sa(out) and delete_sa(in)` skips the second half when the first reports a failure)
    DC = ctx.sval(dc)
    halves = {}
    for c in DC.calls_to(qual='xfrm.Xfrm.delete_sa'):
        halves.setdefault(tq.text(c.args.get('spi', ('undef',)), 80), []).append(c)
    for what, cs in sorted(halves.items()):
        ctx.check(any(not c.pc for c in cs), rule, 'delete_child_sa deletes %s unconditionally (not depending on the result for the other half)'
                  % what, key=(rule, 'delete-half-conditional', what), site=ctx.site(dc, cs[0].node),
                  detail={'conditions': [[tq.text(a[0], 100) for a in c.pc] for c in cs]})
    D = ctx.sval(dsa)
    sends = D.calls_to(qual='netlink.NetlinkProtocol.send_recv')
    handled = [c for c in D.calls if any(a[0][0] == 'caught' and 'NetlinkError' in tq.text(a[0]) for a in c.pc)]
    rer = [t for pc, t, _ in D.raises]
    ctx.check(len(sends) == 1 and bool(handled) and not rer, rule,
              'delete_sa tolerates a kernel refusal (already gone) and reports it', key=(rule, 'delete-tolerant'), site=ctx.site(dsa, dsa.node),
              detail={'raises': [tq.text(t, 100) for t in rer]})
    # ... nor can the report: what it prints of its integer arguments is the integers (`proto.name` of socket.IPPROTO_ESP raises)
    common.member_attr_of_library_int(ctx, rule, ['xfrm.Xfrm.delete_sa', 'xfrm.Xfrm.delete_child_sa', 'xfrm.Xfrm.create_sa',
                                                   'xfrm.Xfrm.create_child_sa', 'xfrm.Xfrm.create_policy'])
    # ... and building the request cannot fail either: the SPI it names fits the 4-octet field of the kernel's SA identifier (a SPI of
    # another length, taken from a peer's proposal, makes ctypes raise TypeError - at installation and again at every removal attempt)
    from .c05 import ah_esp_spi_width
    ah_esp_spi_width(ctx, rule)
    # ... and the teardown of an IKE_SA reaches every CHILD_SA it tracks
    if rule != 'P2':
        teardown_visits_all(ctx, rule)
    # ... which is everything the kernel may hold: a CHILD_SA is entered in `child_sas` BEFORE its SAs are installed, so that a teardown
    # after an installation that failed half-way (first SA accepted, second refused) still finds and removes the first one
    n = 0
    for fi in ctx.prog.cls('ikesa.IkeSa').methods.values():
        if not isinstance(fi.node, ast.FunctionDef) or not fi.self_name:
            continue
        S = ctx.sval(fi)
        for c in S.calls_to(qual='xfrm.Xfrm.create_child_sa'):
            n += 1
            what = c.args.get('child_sa')
            apps = [a for a in S.calls if a.name == 'append' and a.recv == ('attr', ('param', fi.self_name), 'child_sas')
                    and list(a.args.values())[:1] == [what] and a.seq < c.seq and tq.entails(c.pc, _pc_term(a.pc)) is True]
            ctx.check(bool(apps), rule, '%s: the CHILD_SA is tracked in child_sas before Xfrm.create_child_sa installs it' % fi.name,
                      key=(rule, fi.qual, 'tracked-before-installed'), site=ctx.site(fi, c.node))
    ctx.floor('%s kernel installations of a CHILD_SA in IkeSa' % rule, n, 2, rule=rule)


def run(ctx):
    prog, res = ctx.prog, ctx.res
    esc = ctx.escape('engine', kills=common.engine_kills(ctx))
    hier = esc.hier
    ikesa = prog.cls('ikesa.IkeSa')
    ts = common.typestate(ctx, esc)

    # ---------------------------------------------------------------- P1 / P5
    nappend = 0
    graph = res.call_graph()
    for fi in ikesa.methods.values():
        g = esc.add_exception_edges(fi)
        apps = list_calls(ctx, fi, g, 'append')
        if not apps:
            continue
        ctx.functions.add(fi.qual)
        installs = kernel_calls(ctx, fi, g, 'create_child_sa')
        for a, ax in apps:
            if 'self.child_sas' != src(ax.func.value):
                continue
            nappend += 1
            elem = src(ax.args[0])
            inst = [(n, x) for n, x in installs if len(x.args) >= 2 and src(x.args[1]) == elem]
            ctx.check(len(inst) == 1, 'P1', '%s: exactly one Xfrm.create_child_sa for the tracked `%s` (%d found)' % (
                fi.name, elem, len(inst)), key=('P1', fi.qual, 'install-count', elem), site=ctx.site(fi, ax))
            bad = None
            npaths = 0
            for path in g.paths(start=a):
                last = path[-1][0]
                if last.kind != 'exit':
                    continue
                if path_facts(path) is None:
                    continue
                npaths += 1
                installed = any(n is inst[0][0] and not isinstance(lab, tuple) for n, lab in path[1:]) if inst else False
                removed = any(any(isinstance(y, ast.Call) and isinstance(y.func, ast.Attribute) and y.func.attr == 'remove'
                                  and src(y.func.value) == 'self.child_sas' and y.args and src(y.args[0]) == elem
                                  for e in n.exprs() if e is not None for y in walk_no_nested(e))
                              for n, lab in path[1:] if not isinstance(lab, tuple))
                kdel = any(any(isinstance(y, ast.Call) and isinstance(y.func, ast.Attribute)
                               and y.func.attr == 'delete_child_sa' and len(y.args) >= 2 and src(y.args[1]) == elem
                               for e in n.exprs() if e is not None for y in walk_no_nested(e))
                           for n, lab in path[1:] if not isinstance(lab, tuple))
                if installed and not removed:
                    continue
                if not installed and removed and kdel:
                    continue
                if installed and removed and kdel:
                    continue
                bad = (path, installed, removed, kdel)
                break
            if bad is None:
                ctx.ok('P1', '%s: on all %d paths from `child_sas.append(%s)` to a normal exit the CHILD_SA is '
                       'installed, or untracked and deleted again' % (fi.name, npaths, elem), ctx.site(fi, ax))
            else:
                path, i, r, k = bad
                raiser = [n for n, lab in path if isinstance(lab, tuple)]
                ctx.bad('P1', ('P1', fi.qual, 'tracked-not-installed', elem,
                               raiser[-1].text()[:60] if raiser else 'no-exception'),
                        '%s: a path returns normally with `%s` still tracked but %s (kernel refusal / refusal path '
                        'leaves a tracked-but-absent or half-installed SA)' % (
                            fi.name, elem, 'its installation failed at `%s`' % raiser[-1].text()[:60] if raiser
                            else 'never installed'),
                        ctx.site(fi, ax), {'path': fmt_path(path), 'installed': i, 'removed': r, 'kernel_delete': k})
            # exceptions leaving the function after the append: no swallowing handler up the call chain
            for n_, x_ in inst:
                R = set((n_.raises or {}).keys())
                escaping = set(e for e in R if esc.route(fi, n_, e)[1])
                check_no_swallow(ctx, esc, ts, fi, escaping, graph, elem)
    ctx.floor('P1 child_sas.append sites', nappend, 2)
    # Xfrm.create_child_sa installs exactly one pair
    cc = ctx.func('xfrm.Xfrm.create_child_sa')
    gc = esc.add_exception_edges(cc)
    from .. import tq as _tq
    from ..sval import strip_ids as _sid, NONE as _NONE
    CC = ctx.sval(cc)
    cs = CC.calls_to(qual='xfrm.Xfrm.create_sa')        # by value terms: two calls, or one call in a loop over the two directions
    ctx.check(len(cs) == 2 and all(not c.pc for c in cs), 'P1', 'Xfrm.create_child_sa installs exactly two kernel SAs (%d create_sa calls)' % len(cs),
              key=('P1', 'create_sa-count', len(cs)), site=ctx.site(cc, cc.node))

    # what the rollback paths react to is the kernel's refusal: the NEWSA request is sent, its reply is read and a non-zero NLMSG_ERROR
    # comes out of send_recv as NetlinkError (a refusal that never surfaces leaves a tracked CHILD_SA the kernel does not have);
    # and the SA is installed under the address family of its tunnel endpoints, which is where the later DELSA looks for it
    # (shared with C14 L3 / L4)
    from .c14 import check_framing, check_layouts, Headers
    sizes = check_layouts(ctx, Headers(), rule='P1', only=('xfrm.XfrmUserSaInfo', 'xfrm.XfrmUserPolicyInfo', 'xfrm.XfrmAlgo', 'xfrm.XfrmUserTmpl',
                                                            'netlink.NetlinkHeader'), floor=0)
    check_framing(ctx, sizes, 'P1')
    common.create_sa_orientation(ctx, 'P1')
    # ---------------------------------------------------------------- P2
    nrem = 0
    for fi in ikesa.methods.values():
        g = esc.add_exception_edges(fi)
        dels = kernel_calls(ctx, fi, g, 'delete_child_sa')
        for n, x in list_calls(ctx, fi, g, 'remove'):
            if src(x.func.value) != 'self.child_sas':
                continue
            nrem += 1
            elem = src(x.args[0])
            dom = [d for d, y in dels if len(y.args) >= 2 and src(y.args[1]) == elem
                   and n.id not in g.reach([g.entry], blocked_nodes=[d])]
            ctx.check(bool(dom), 'P2', '%s: `child_sas.remove(%s)` is dominated by the kernel delete of the same CHILD_SA'
                      % (fi.name, elem), key=('P2', fi.qual, 'remove-without-delete', elem), site=ctx.site(fi, x))
        for n, x in list_calls(ctx, fi, g, 'clear'):
            nrem += 1
            okc = False
            for h, l in g.loops:
                if isinstance(l, ast.For) and src(l.iter) == 'self.child_sas':
                    body_del = [d for d, y in dels if any(z is y for z in ast.walk(l)) and len(y.args) >= 2
                                and src(y.args[1]) == src(l.target)]
                    first = [m for lab, m in h.succ if lab == 'body']
                    uncond = body_del and all(m.kind != 'cond' for m in first)
                    if uncond and n.id not in g.reach([g.entry], blocked_nodes=[h]):
                        okc = True
            ctx.check(okc, 'P2', '%s: `child_sas.clear()` follows a loop deleting every tracked CHILD_SA from the kernel'
                      % fi.name, key=('P2', fi.qual, 'clear-without-delete'), site=ctx.site(fi, x))
    ctx.floor('P2 remove/clear sites', nrem, 3)
    # orientation of delete vs install
    dc = ctx.func('xfrm.Xfrm.delete_child_sa')
    gd = esc.add_exception_edges(dc)
    ds = kernel_calls(ctx, dc, gd, 'delete_sa')
    dsa = ctx.func('xfrm.Xfrm.delete_sa')
    csa = ctx.func('xfrm.Xfrm.create_sa')
    pairs_del = set()
    for n, x in ds:
        b = bind_args(x, dsa)
        pairs_del.add((src(b['daddr']).split('.')[-1], src(b['spi']).split('.')[-1]))
    pairs_ins = set()
    for c in cs:
        pairs_ins.add((_tq.text(_sid(c.args.get('dst', _NONE))).split('.')[-1], _tq.text(_sid(c.args.get('spi', _NONE))).split('.')[-1]))
    want = {('peer_addr', 'outbound_spi'), ('my_addr', 'inbound_spi')}
    ctx.check(pairs_del == want, 'P2', 'delete_child_sa deletes (peer_addr, outbound_spi) and (my_addr, inbound_spi): %s'
              % sorted(pairs_del), key=('P2', 'delete-orientation'), site=ctx.site(dc, dc.node))
    ctx.check(pairs_ins == want, 'P2', 'create_child_sa installs the same (destination, SPI) pairs: %s' % sorted(pairs_ins),
              key=('P2', 'install-orientation'), site=ctx.site(cc, cc.node))
    kernel_teardown(ctx, esc, 'P2')
    protos = set(src(bind_args(x, dsa)['proto']) for n, x in ds)
    ctx.check(len(protos) == 1, 'P2', 'both deletions use the CHILD_SA\'s IPsec protocol', key=('P2', 'delete-proto'),
              site=ctx.site(dc, dc.node))

    # ---------------------------------------------------------------- P3
    handover_rule(ctx, esc, 'P3')
    # the inherited CHILD_SAs are deleted in the kernel with the successor's endpoints: they must be this IKE_SA's
    from .c01 import successor_construction
    successor_construction(ctx, 'P3')

    # ---------------------------------------------------------------- P4
    common.deleted_observed(ctx, esc, 'P4')
    ndel = 0
    observed = {'process_message', 'check_retransmission_timer'}
    for fi in ikesa.methods.values():
        for n in walk_no_nested(fi.node):
            if isinstance(n, ast.Assign) and any(common.is_self_attr(t, fi, 'state') for t in n.targets) \
                    and common.state_name(n.value) == 'DELETED':
                ndel += 1
    ctx.floor('P4 DELETED assignments', ndel, 5)
    S = ts.S
    for name in common.ENTRY_POINTS:
        if name in observed:
            continue
        fi = ctx.func('ikesa.IkeSa.' + name)
        for s, outs in ts.entry_outcomes[name].items():
            if s == 'DELETED':
                continue
            ctx.check(all(s2 != 'DELETED' for s2, k in outs), 'P4',
                      '%s cannot move the IKE_SA from %s to DELETED (its result is not observed for teardown)' % (name, s),
                      key=('P4', name, 'unobserved-delete', s), site=ctx.site(fi, fi.node))
    # the two observed entry points are followed by the teardown test in the controller
    dm = ctx.func('ikesacontroller.IkeSaController.dispatch_message')
    gdm = esc.add_exception_edges(dm)
    pm = [n for n, x in common.nodes_calling(ctx, dm, gdm, common.calls_named('process_message'))]
    tests = [c for c in gdm.nodes if c.kind == 'cond' and S.eval_cond(c.ast) is not None
             and S.eval_cond(c.ast)[1] == frozenset(['DELETED'])]
    # a branch of another test of the same state that excludes DELETED has nothing left to observe (`match x.state: case REKEYED..:
    # .. case DELETED: ..` is one chain) - as long as no datagram is processed again behind it
    subj_of = {S.eval_cond(c.ast)[0] for c in tests}
    decided = []
    for c in gdm.nodes:
        ev = S.eval_cond(c.ast) if c.kind == 'cond' else None
        if ev is None or ev[0] not in subj_of or c in tests:
            continue
        for lab, m in c.succ:
            inside = ev[1] if lab == 'T' else S.all - ev[1] if lab == 'F' else None
            if inside is not None and 'DELETED' not in inside and not any(
                    q.id in gdm.reach([m], follow_exc=False) for q in pm):
                decided.append((c.id, lab, m.id))
    ctx.check(bool(pm) and all(gdm.exit.id not in gdm.reach([p], blocked_edges=decided, blocked_nodes=tests, follow_exc=False) for p in pm),
              'P4', 'after every processed datagram the controller tests the IKE_SA for DELETED',
              key=('P4', 'dispatch-observes'), site=ctx.site(dm, dm.node))
    ml = ctx.func('ikesacontroller.IkeSaController.main_loop')
    gml = esc.add_exception_edges(ml)
    for n, x in common.nodes_calling(ctx, ml, gml, common.calls_named('check_retransmission_timer')):
        recv = src(x.func.value)
        t2 = [c for c in gml.nodes if c.kind == 'cond' and S.eval_cond(c.ast) is not None
              and S.eval_cond(c.ast) == (recv + '.state', frozenset(['DELETED']))]
        # from the timer call, the loop head cannot be reached again without passing the test
        heads = [h for h, l in gml.loops if isinstance(l, ast.For) and any(y is x for y in ast.walk(l))]
        ok = bool(t2) and bool(heads) and all(
            h.id not in gml.reach([m for lab, m in n.succ if not isinstance(lab, tuple)], blocked_nodes=t2,
                                  follow_exc=False) for h in heads)
        ctx.check(ok, 'P4', 'the sweep tests every IKE_SA for DELETED right after its retransmission timer ran',
                  key=('P4', 'sweep-observes'), site=ctx.site(ml, x))
    dcs = ctx.func('ikesa.IkeSa.delete_child_sas')
    ctx.functions.add(dcs.qual)

    # ---------------------------------------------------------------- P5b: teardown visits every CHILD_SA
    teardown_visits_all(ctx, 'P5')

    # ---------------------------------------------------------------- P6
    ctrl_init = ctx.func('ikesacontroller.IkeSaController.__init__')
    close = ctx.func('ikesacontroller.IkeSaController.close')
    for fi in (ctrl_init, close):
        g = esc.add_exception_edges(fi)
        fl = kernel_calls(ctx, fi, g, 'flush_sas')
        ctx.check(bool(fl) and all(g.exit.id not in g.reach([g.entry], blocked_nodes=[n for n, _ in fl], follow_exc=False)
                                   for _ in [0]), 'P6', '%s flushes the SAD on every path' % fi.qual.split('.', 1)[1],
                  key=('P6', fi.qual, 'flush_sas'), site=ctx.site(fi, fi.node))


def teardown_visits_all(ctx, rule):
    """a loop over the tracked list itself (not a copy) must not add or remove elements of that list - directly or through a method
    of the same object - or every second CHILD_SA is skipped and its kernel SAs stay behind when the IKE_SA is torn down"""
    prog, res = ctx.prog, ctx.res
    # a loop over the tracked list itself (not a copy) must not add or remove elements of that list - directly or through a
    # method of the same object - or every second CHILD_SA is skipped and its kernel SAs stay behind
    MUT = ('remove', 'pop', 'clear', 'append', 'insert', 'extend')
    ikesa_cls = prog.cls('ikesa.IkeSa')

    def direct_mutation(node):
        for y in ast.walk(node):
            if isinstance(y, ast.Call) and isinstance(y.func, ast.Attribute) and y.func.attr in MUT \
                    and isinstance(y.func.value, ast.Attribute) and y.func.value.attr == 'child_sas':
                return y
            if isinstance(y, ast.Attribute) and y.attr == 'child_sas' and isinstance(y.ctx, (ast.Store, ast.Del)):
                return y
        return None
    mutators = {f.qual for f in ikesa_cls.methods.values() if isinstance(f.node, ast.FunctionDef) and direct_mutation(f.node) is not None}
    changed = True
    while changed:
        changed = False
        for f in ikesa_cls.methods.values():
            if f.qual in mutators or not isinstance(f.node, ast.FunctionDef):
                continue
            for y in walk_no_nested(f.node):
                if isinstance(y, ast.Call) and isinstance(y.func, ast.Attribute) and isinstance(y.func.value, ast.Name) \
                        and y.func.value.id == f.self_name:
                    r = res.resolve_call(y, f, count=False)
                    if any(t.qual in mutators for t in r.targets):
                        mutators.add(f.qual)
                        changed = True
                        break
    nloops = 0
    nsites = 0
    for f in list(ikesa_cls.methods.values()) + list(prog.cls('ikesacontroller.IkeSaController').methods.values()):
        if not isinstance(f.node, ast.FunctionDef):
            continue
        sv = ctx.sval(f)
        # every place that walks the CHILD_SAs (the list, a copy of it, a comprehension over it): the population the rule looks at
        nsites += sum(1 for y in walk_no_nested(f.node) if isinstance(y, (ast.For, ast.comprehension))
                      and any(isinstance(z, ast.Attribute) and z.attr == 'child_sas' for z in ast.walk(y.iter)))
        for lp in [y for y in walk_no_nested(f.node) if isinstance(y, ast.For)]:
            t = sv.terms.get(id(lp.iter))
            if t is None or not (t[0] == 'attr' and t[2] == 'child_sas'):
                continue
            nloops += 1
            owner = src(lp.iter.value) if isinstance(lp.iter, ast.Attribute) else None
            bad = None
            for st in lp.body:
                d = direct_mutation(st)
                if d is not None:
                    bad = d
                for y in ast.walk(st):
                    if isinstance(y, ast.Call) and isinstance(y.func, ast.Attribute) and owner is not None and src(y.func.value) == owner:
                        r = res.resolve_call(y, f, count=False)
                        if any(t2.qual in mutators for t2 in r.targets):
                            bad = y
            ctx.check(bad is None, rule, '%s: the loop over `%s` does not change that list while walking it' % (f.name, src(lp.iter)),
                      key=(rule, f.qual, 'mutates-while-iterating', src(lp.iter)), site=ctx.site(f, bad if bad is not None else lp),
                      detail={'mutating call': src(bad)[:80] if bad is not None else None})
    ctx.stats['%s loops over the tracked list itself' % rule] = nloops
    ctx.floor('%s places that walk the CHILD_SAs of an IKE_SA' % rule, nsites, 3)



def handover_rule(ctx, esc, rule):
    """P3: CHILD_SAs move to the successor IKE_SA exactly when the rekey commits (state := REKEYED), on both roles, with nothing that
    can fail in between - never when the rekey is merely requested"""
    ikesa = ctx.prog.cls('ikesa.IkeSa')
    nmove = 0
    for fi in ikesa.methods.values():
        g = esc.add_exception_edges(fi)
        for n in g.nodes:
            if n.kind != 'stmt' or not isinstance(n.ast, ast.Assign):
                continue
            tg = [t for t in n.ast.targets if isinstance(t, ast.Attribute) and t.attr == 'child_sas']
            if not tg:
                continue
            tsrc, vsrc = src(tg[0]), src(n.ast.value)
            if fi.name == '__init__' and vsrc == '[]':
                continue
            if tsrc == 'self.child_sas' and vsrc == '[]':
                # release half of a transfer: must be dominated by the transfer
                moves = [m for m in g.nodes if m.kind == 'stmt' and isinstance(m.ast, ast.Assign)
                         and src(m.ast.value) == 'self.child_sas'
                         and any(isinstance(t, ast.Attribute) and t.attr == 'child_sas' for t in m.ast.targets)]
                ctx.check(any(n.id not in g.reach([g.entry], blocked_nodes=[m]) for m in moves), rule,
                          '%s: `self.child_sas = []` only releases a list that was just handed to the successor' % fi.name,
                          key=(rule, fi.qual, 'list-dropped'), site=ctx.site(fi, n.ast))
                continue
            if vsrc == 'self.child_sas' and tsrc != 'self.child_sas':
                nmove += 1
                ctx.functions.add(fi.qual)
                succ = tsrc.rsplit('.', 1)[0]
                commits = [m for m in g.nodes if m.kind == 'stmt' and isinstance(m.ast, ast.Assign)
                           and any(common.is_self_attr(t, fi, 'state') for t in m.ast.targets)
                           and common.state_name(m.ast.value) == 'REKEYED']
                rel = [m for m in g.nodes if m.kind == 'stmt' and isinstance(m.ast, ast.Assign)
                       and any(src(t) == 'self.child_sas' for t in m.ast.targets) and src(m.ast.value) == '[]']
                ctx.check(bool(commits) and bool(rel), rule, '%s: the hand-over to %s has a release and a commit '
                          '(state := REKEYED)' % (fi.name, succ), key=(rule, fi.qual, 'no-commit'), site=ctx.site(fi, n.ast))
                # region between transfer and commit: nodes reachable from n and reaching a commit
                between = [m for m in g.nodes if m.id in g.reach([n], follow_exc=False) and m is not n
                           and any(c.id in g.reach([m], follow_exc=False) for c in commits)
                           and not any(m.id in g.reach([c], follow_exc=False) and m is not c for c in commits)]
                risky = [(m, sorted((m.raises or {}).keys())) for m in [n] + between if (m.raises or {})]
                ctx.check(not risky, rule, '%s: nothing can raise between handing child_sas to %s and the commit' % (
                    fi.name, succ), key=(rule, fi.qual, 'raise-in-handover',
                                         risky[0][0].text()[:60] if risky else ''), site=ctx.site(fi, n.ast),
                    detail={'may_raise': [(m.text()[:80], r) for m, r in risky]})
                # everything before the transfer that can fail is before it: the transfer dominates the commit
                for c in commits:
                    ctx.check(c.id not in g.reach([g.entry], blocked_nodes=[n]), rule,
                              '%s: the commit is reached only through the hand-over' % fi.name,
                              key=(rule, fi.qual, 'commit-without-handover'), site=ctx.site(fi, c.ast))
                # every normal path from the transfer reaches release and commit
                for tgt, what in ((rel, 'release'), (commits, 'commit')):
                    ctx.check(g.exit.id not in g.reach([n], blocked_nodes=tgt, follow_exc=False), rule,
                              '%s: every path from the hand-over passes the %s' % (fi.name, what),
                              key=(rule, fi.qual, 'handover-without-' + what), site=ctx.site(fi, n.ast))
                # may-raise calls of the negotiation must come before
                continue
            ctx.bad(rule, (rule, fi.qual, 'alias', src(n.ast)), '%s: unexpected (re)binding of a child_sas list: `%s`'
                    % (fi.name, src(n.ast)), ctx.site(fi, n.ast))
    ctx.check(nmove == 2, rule, 'CHILD_SAs are handed to a successor at exactly two sites (both rekey roles): %d' % nmove,
              key=(rule, 'move-count', nmove))



def check_no_swallow(ctx, esc, ts, fi, escaping, graph, elem):
    """Exceptions escaping the installing function are not caught by a handler that neither
    untracks the CHILD_SA nor deletes the IKE_SA (walk the callers inside IkeSa)."""
    hier = esc.hier
    prog = ctx.prog
    seen = set()
    todo = [(fi.qual, frozenset(escaping))]
    while todo:
        q, excs = todo.pop()
        if (q, excs) in seen or not excs:
            continue
        seen.add((q, excs))
        callers = [prog.functions[c] for c, callees in graph.items() if q in callees and c in prog.functions
                   and prog.functions[c].cls is not None and prog.functions[c].cls.qual == 'ikesa.IkeSa']
        for c in callers:
            g = esc.add_exception_edges(c)
            for n in g.nodes:
                _, cmap = esc.direct(c)
                if not any(t.qual == q for t, _ in cmap.get(n.id, ())):
                    continue
                up = set()
                for e in excs:
                    hs, escapes = esc.route(c, n, e)
                    for h in hs:
                        body = g.reach([h], follow_exc=False)
                        sets_deleted = any(m.id in body and m.kind == 'stmt' and isinstance(m.ast, ast.Assign)
                                           and any(common.is_self_attr(t, c, 'state') for t in m.ast.targets)
                                           and common.state_name(m.ast.value) == 'DELETED' for m in g.nodes)
                        untracks = any(m.id in body and 'child_sas.remove' in m.text() for m in g.nodes)
                        reraises = any(m.id in body and m.kind == 'stmt' and isinstance(m.ast, ast.Raise)
                                       and m.ast.exc is None for m in g.nodes)
                        ctx.check(sets_deleted or untracks or reraises, 'P1',
                                  '%s: handler `%s` catching %s from the CHILD_SA installation untracks `%s` or deletes '
                                  'the IKE_SA' % (c.name, h.text(), e, elem),
                                  key=('P1', c.qual, 'swallowed', e, h.text()), site=ctx.site(c, h.ast))
                    if escapes:
                        up.add(e)
                todo.append((c.qual, frozenset(up)))


MANIFEST = {
    'level': 'Static decision on every CFG path (with exceptional edges) of the functions that touch child_sas: a '
             'tracked CHILD_SA is installed or untracked-and-deleted before any normal exit; kernel-refusal exceptions '
             'are never swallowed without untracking or deleting the IKE_SA; every untracking is dominated by the '
             'kernel delete of the same element with the install\'s orientation; the rekey hand-over is an atomic '
             'ownership transfer (nothing can raise between transfer and commit, both roles); every DELETED assignment '
             'is observed by a teardown site before the next event. Histories are not enumerated; paths are.',
    'note': 'Trusted: effect catalogue (which calls may raise), resolver typing; delete_sa tolerates absent SAs.',
    'technique': 'pairing/ownership analysis over CFG paths with exception edges + typestate',
    'design_ref': 'DESIGN.md 3/C10',
}
MANIFEST['note'] += (' Also decided here (necessary conditions shared between properties or added after the independent '
                     'change rounds, DESIGN.md 8.7): endpoints of the successor IKE_SA (from C01), kernel teardown (both halves, tolerant delete_sa). Rounds 7-8: netlink refusal surfaces as NetlinkError and NEWSA field orientation (from C14); each half deleted unconditionally; tracked before installed.')
