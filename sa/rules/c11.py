"""C11 - Algorithm negotiation never selects anything outside both offers.

N1 (A5+A4) validated-before-use: every proposal that reaches a sink (key derivation, ChildSa(proposal=),
         chosen_proposal, the SA payload of a response) is either of local origin (configuration / an
         existing CHILD_SA), the result of _select_best_sa_proposal(mine, peer SA payload), or a peer
         proposal dominated by the passing edges of the initiator-side validation.
N2       `mine` in each validation is the configured proposal for that SA kind, without DH transforms
         exactly when the exchange is IKE_AUTH, on both roles.
N3 (A4)  DiffieHellman.from_group(peer group) is dominated by the comparison with the chosen proposal's
         group, whose failing edge raises InvalidKePayload naming the chosen group; the notify packs it.
N4 (A4)  handle_invalid_ke: the suggested group is used only if it is one of the DH transforms of our own
         outstanding proposal, else NoProposalChosen.
N5       structural facts of the validation routines (Transform identity, Proposal.intersection shape and
         local preference, is_subset, __eq__, first acceptable peer proposal, refusal notify).
N6 (A4)  on the responder the selection dominates installation (a refusal installs nothing).
"""
import ast

from ..model import AnalysisError, src, walk_no_nested
from ..terms import callee_name, calls_in, compare_parts, inline, kwargs_of, single_def
from . import common

EXPLANATION = ('static analysis: origin classification of every proposal reaching a sink (local / selected / validated '
               'peer proposal) with dominance of the validation edges, provenance of the local operand of each validation, '
               'dominance of DH instantiation by the group comparison, and structural conformance of the validation '
               'routines (Transform identity, intersection, subset, first-match selection)')
ASSUMPTIONS = [
    'declined: the semantics of Proposal.intersection / is_subset over all proposal pairs beyond the structural facts N5 '
    '(local-preference first-match loop, type-set equality, protocol equality)',
]

IKESA = 'ikesa.IkeSa'


def is_sa_lookup(e, msg_names):
    """`<msg>.get_payload(Payload.Type.SA, ...)`"""
    return isinstance(e, ast.Call) and callee_name(e) == 'get_payload' and e.args and src(e.args[0]).endswith('Type.SA') \
        and src(e.func.value) in msg_names


def origin(ctx, fi, expr, depth=0):
    """('local', text) | ('selected', call) | ('peer', inlined expr) | ('attr', text) | ('unknown', text)"""
    res = ctx.res
    msgs = set(p for p in fi.call_params() if p in ('request', 'response', 'message'))
    LOCAL = ('self.configuration.', 'ipsec_conf.', 'child_sa.', 'self.creating_child_sa.', 'self.get_child_sa(',
             'self.rekeying_child_sa.', 'rekeyed_child_sa.')
    if isinstance(expr, ast.Constant) and expr.value is None:
        return 'local', 'None'
    if src(expr).startswith(LOCAL):
        return 'local', src(expr)
    e = inline(res, fi, expr, 5, stop=frozenset(msgs))
    if isinstance(e, ast.Call) and callee_name(e) == '_select_best_sa_proposal':
        return 'selected', e
    if isinstance(e, ast.Call) and callee_name(e) == 'copy_without_dh_transforms':
        return origin(ctx, fi, e.func.value, depth + 1)
    t = src(e)
    if t.startswith(LOCAL):
        return 'local', t
    if isinstance(e, ast.Subscript) and isinstance(e.value, ast.Attribute) and e.value.attr == 'proposals' \
            and is_sa_lookup(e.value.value, msgs):
        return 'peer', e
    if isinstance(e, ast.Subscript) and isinstance(e.value, ast.Call) and callee_name(e.value) == '_get_ipsec_configuration':
        return 'local', t
    if isinstance(e, ast.Attribute) and src(e.value).split('[')[0].endswith('_get_ipsec_configuration(request_payload_tsi, request_payload_tsr)'):
        return 'local', t
    if t in ('self.chosen_proposal', 'proposal') or isinstance(e, ast.Attribute) and t.startswith('self.'):
        return 'attr', t
    if isinstance(e, ast.Attribute) and isinstance(e.value, ast.Subscript) and isinstance(e.value.value, ast.Call) \
            and callee_name(e.value.value) == '_get_ipsec_configuration' and e.attr in ('proposal',):
        return 'local', t
    return 'unknown', t


def sinks(ctx, fi):
    """[(node expr of the proposal, description, call/assign ast)] in fi"""
    out = []
    for n in walk_no_nested(fi.node):
        if isinstance(n, ast.Call):
            nm = callee_name(n)
            if nm == 'generate_ike_sa_key_material':
                b = kwargs_of(n, target=ctx.prog.func(IKESA + '.generate_ike_sa_key_material'))
                out.append((b.get('ike_proposal'), 'IKE key derivation', n))
            elif nm == 'generate_child_sa_key_material':
                b = kwargs_of(n, target=ctx.prog.func(IKESA + '.generate_child_sa_key_material'))
                out.append((b.get('child_proposal'), 'CHILD_SA key derivation', n))
            elif nm in ('ChildSa', '_replace'):
                for k in n.keywords:
                    if k.arg == 'proposal':
                        out.append((k.value, '%s(proposal=...)' % nm, n))
            elif nm == 'PayloadSA' and n.args and isinstance(n.args[0], ast.List):
                for el in n.args[0].elts:
                    out.append((el, 'SA payload', n))
        elif isinstance(n, ast.Assign) and any(src(t) == 'self.chosen_proposal' for t in n.targets):
            out.append((n.value, 'self.chosen_proposal = ...', n))
    return [(e, d, a) for e, d, a in out if e is not None]


def validation_edges(ctx, fi, g, peer_expr_text, mine_ok):
    """edges whose passing proves `peer_expr` is drawn from our offer: [(cond node, passing label)] groups;
    returns list of groups (all edges of one group must dominate)"""
    res = ctx.res
    msgs = frozenset(p for p in fi.call_params() if p in ('request', 'response', 'message'))
    groups = []
    for c in g.nodes:
        if c.kind != 'cond':
            continue
        # A: `<peer>.is_subset(<mine>)`
        if isinstance(c.ast, ast.Call) and callee_name(c.ast) == 'is_subset' and c.ast.args:
            if src(inline(res, fi, c.ast.func.value, 5, msgs)) == peer_expr_text and mine_ok(c.ast.args[0]):
                groups.append([(c, 'T')])
    # B: intersection = mine.intersection(peer); `intersection is None` F  and `intersection != peer` F
    for name, defs in res.local_defs(fi).items():
        if len(defs) != 1 or not (isinstance(defs[0], ast.Call) and callee_name(defs[0]) == 'intersection' and defs[0].args):
            continue
        d = defs[0]
        if src(inline(res, fi, d.args[0], 5, msgs)) != peer_expr_text or not mine_ok(d.func.value):
            continue
        none_c = [(c, 'F') for c in g.nodes if c.kind == 'cond' and src(c.ast) == '%s is None' % name] + \
                 [(c, 'T') for c in g.nodes if c.kind == 'cond' and src(c.ast) == '%s is not None' % name]
        eq_c = []
        for c in g.nodes:
            cp = compare_parts(c.ast) if c.kind == 'cond' else None
            if cp and cp[1] in (ast.NotEq, ast.Eq) and name in (src(cp[0]), src(cp[2])):
                other = cp[2] if src(cp[0]) == name else cp[0]
                if src(inline(res, fi, other, 5, msgs)) == peer_expr_text:
                    eq_c.append((c, 'F' if cp[1] is ast.NotEq else 'T'))
        if none_c and eq_c:
            groups.append([none_c[0], eq_c[0]])
    return groups


def run(ctx):
    prog, res = ctx.prog, ctx.res
    esc = ctx.escape('engine', kills=common.engine_kills(ctx))
    ikesa = prog.cls(IKESA)

    # ---------------------------------------------------------------- N1 / N2
    nsinks = 0
    kinds = {'local': 0, 'selected': 0, 'peer': 0}
    for fi in ikesa.methods.values():
        ss = sinks(ctx, fi)
        if not ss:
            continue
        g = esc.add_exception_edges(fi)
        ctx.functions.add(fi.qual)
        msgs = frozenset(p for p in fi.call_params() if p in ('request', 'response', 'message'))
        for e, desc, a in ss:
            nsinks += 1
            kind, val = origin(ctx, fi, e)
            site = ctx.site(fi, a)
            what = '%s in %s takes `%s`' % (desc, fi.name, src(e)[:40])
            if kind == 'attr':
                # self.chosen_proposal read: classify what this function (or, for rekey helpers, its IkeSa) last stored
                stores = [n for n in walk_no_nested(fi.node) if isinstance(n, ast.Assign)
                          and any(src(t) == val for t in n.targets)]
                if not stores:
                    raise AnalysisError('N1: %s reads %s which it never assigns' % (fi.qual, val))
                node = common.node_of(g, a)[0]
                reaching = [s for s in stores if common.node_of(g, s) and node.id in g.reach(common.node_of(g, s))
                            and s is not a]
                ctx.require(bool(reaching), 'N1: no store of %s reaches %s' % (val, site))
                # the store closest to the sink is itself a sink entry and is classified there
                ctx.ok('N1', what + ' (classified at its assignment in the same function)', site)
                continue
            if kind == 'local':
                kinds['local'] += 1
                ctx.ok('N1', what + ': local origin (%s)' % val[:60], site)
                continue
            if kind == 'selected':
                kinds['selected'] += 1
                mine, peer = val.args[0], val.args[1]
                pk = inline(res, fi, peer, 4, msgs)
                ctx.check(is_sa_lookup(pk, msgs), 'N1', what + ': selected by _select_best_sa_proposal from the SA payload of the '
                          'received message', key=('N1', fi.qual, desc, 'selected-from'), site=site)
                check_mine(ctx, fi, mine, site, desc)
                continue
            if kind == 'peer':
                kinds['peer'] += 1
                node = common.node_of(g, a)[0]
                groups = validation_edges(ctx, fi, g, src(val), lambda m: mine_is_local(ctx, fi, m))
                ok = any(all(common.dominated_by_edge(g, node, c, lab) for c, lab in grp) for grp in groups)
                ctx.check(ok, 'N1', what + ': a peer proposal used only after it was validated against our offer',
                          key=('N1', fi.qual, desc, 'unvalidated-peer-proposal'), site=site)
                for grp in groups:
                    for c, lab in grp:
                        failing = 'T' if lab == 'F' else 'F'
                        fn = [m for l2, m in c.succ if l2 == failing]
                        ctx.check(bool(fn) and all(isinstance(m.ast, ast.Raise) and 'NoProposalChosen' in src(m.ast) for m in fn),
                                  'N1', 'a failed validation `%s` raises NoProposalChosen' % src(c.ast)[:50],
                                  key=('N1', fi.qual, 'validation-raise', src(c.ast)[:40]), site=ctx.site(fi, c.ast))
                continue
            ctx.bad('N1', ('N1', fi.qual, desc, 'unknown-origin', val[:60]),
                    what + ': origin of the proposal cannot be classified (%s)' % val[:80], site)
    ctx.floor('N1 proposal sinks', nsinks, 14)
    ctx.stats['N1 sink origins'] = kinds
    ctx.check(kinds['selected'] >= 4 and kinds['peer'] >= 3, 'N1', 'anchors: responder sinks are fed by selection, initiator '
              'sinks by validated peer proposals (%s)' % kinds, key=('N1', 'anchors'))
    # N2 sibling agreement of the IKE_AUTH special case
    for q in (IKESA + '._process_create_child_sa_negotiation_req', IKESA + '._process_create_child_sa_negotiation_res'):
        fi = ctx.func(q)
        d = single_def(res, fi, 'my_proposal')
        msg = fi.call_params()[0]
        ok = isinstance(d, ast.IfExp) and src(d.test) == '%s.exchange_type == Message.Exchange.IKE_AUTH' % msg \
            and isinstance(d.body, ast.Call) and callee_name(d.body) == 'copy_without_dh_transforms' \
            and src(d.body.func.value) == src(d.orelse)
        ctx.check(ok, 'N2', '%s validates against the configured proposal, without DH transforms exactly when the exchange is '
                  'IKE_AUTH' % fi.name, key=('N2', q, 'ike-auth-special-case'), site=ctx.site(fi, fi.node))

    # ---------------------------------------------------------------- N3
    nsites = 0
    for fi in ikesa.methods.values():
        g = None
        for x in calls_in(fi.node):
            if callee_name(x) != 'from_group' or not x.args:
                continue
            a = x.args[0]
            if not (isinstance(a, ast.Attribute) and a.attr == 'dh_group'):
                continue
            nsites += 1
            g = esc.add_exception_edges(fi)
            node = common.node_of(g, x)[0]
            pk = a.value
            d = single_def(res, fi, pk.id) if isinstance(pk, ast.Name) else None
            ctx.check(isinstance(d, ast.Call) and callee_name(d) == 'get_payload' and src(d.args[0]).endswith('Type.KE'), 'N3',
                      '%s: the DH group comes from the KE payload of the request' % fi.name, key=('N3', fi.qual, 'ke-source'),
                      site=ctx.site(fi, x))
            ok = False
            for c in g.nodes:
                cp = compare_parts(c.ast) if c.kind == 'cond' else None
                if not cp or cp[1] not in (ast.NotEq, ast.Eq) or src(a) not in (src(cp[0]), src(cp[2])):
                    continue
                mine = cp[2] if src(cp[0]) == src(a) else cp[0]
                md = inline(res, fi, mine, 2)
                chosen_ok = isinstance(md, ast.Attribute) and md.attr == 'id' and isinstance(md.value, ast.Call) \
                    and callee_name(md.value) == 'get_transform' and src(md.value.args[0]).endswith('Type.DH') \
                    and origin(ctx, fi, md.value.func.value)[0] in ('selected', 'attr')
                passing = 'F' if cp[1] is ast.NotEq else 'T'
                failing = 'T' if passing == 'F' else 'F'
                fn = [m for l2, m in c.succ if l2 == failing]
                raises = bool(fn) and all(isinstance(m.ast, ast.Raise) and isinstance(m.ast.exc, ast.Call)
                                          and callee_name(m.ast.exc) == 'InvalidKePayload'
                                          and any(k.arg == 'group' and src(k.value) == src(mine) for k in m.ast.exc.keywords)
                                          for m in fn)
                if chosen_ok and common.dominated_by_edge(g, node, c, passing):
                    ok = True
                    ctx.check(raises, 'N3', '%s: a KE payload in another group raises InvalidKePayload naming the chosen group'
                              % fi.name, key=('N3', fi.qual, 'raise-group'), site=ctx.site(fi, c.ast))
            ctx.check(ok, 'N3', '%s: DiffieHellman.from_group(peer group) runs only after the group equalled the chosen '
                      'proposal\'s DH transform' % fi.name, key=('N3', fi.qual, 'group-unchecked'), site=ctx.site(fi, x))
    ctx.floor('N3 from_group(peer KE group) sites', nsites, 2)
    fe = ctx.func('message.PayloadNOTIFY.from_exception')
    ok = False
    for n in walk_no_nested(fe.node):
        if isinstance(n, ast.If) and src(n.test) in ('type(ex) is InvalidKePayload', 'isinstance(ex, InvalidKePayload)'):
            ok = any(isinstance(s, ast.Assign) and src(s.targets[0]) == 'notification_data' and isinstance(s.value, ast.Call)
                     and callee_name(s.value) == 'pack' and [src(a) for a in s.value.args] == ["'>H'", 'ex.group'] for s in n.body)
    ctx.check(ok, 'N3', 'the INVALID_KE_PAYLOAD notification carries the group as a 16-bit big-endian number',
              key=('N3', 'notify-data'), site=ctx.site(fe, fe.node))
    ie = ctx.func('message.InvalidKePayload.__init__')
    ctx.check(any(isinstance(n, ast.Assign) and src(n.targets[0]) == 'self.group' and src(n.value) == 'group'
                  for n in walk_no_nested(ie.node)), 'N3', 'InvalidKePayload keeps the group it is given', key=('N3', 'exc-field'),
              site=ctx.site(ie, ie.node))

    # ---------------------------------------------------------------- N4
    hk = ctx.func(IKESA + '.handle_invalid_ke')
    g = esc.add_exception_edges(hk)
    fg = [(n, x) for n, x in common.nodes_calling(ctx, hk, g, common.calls_named('from_group'))]
    ctx.check(len(fg) == 1, 'N4', 'handle_invalid_ke instantiates DH for the suggested group', key=('N4', 'anchor'),
              site=ctx.site(hk, hk.node))
    for n, x in fg:
        sg = src(x.args[0])
        d = single_def(res, hk, sg)
        ctx.check(isinstance(d, ast.Subscript) and isinstance(d.value, ast.Call) and callee_name(d.value) == 'unpack'
                  and src(d.value.args[0]) == "'>H'" and src(d.value.args[1]).endswith('.notification_data')
                  and isinstance(d.slice, ast.Constant) and d.slice.value == 0, 'N4',
                  'the suggested group is the 16-bit number of the notification data', key=('N4', 'suggested'), site=ctx.site(hk, x))
        ok = False
        for c in g.nodes:
            cp = compare_parts(c.ast) if c.kind == 'cond' else None
            if not cp or cp[1] not in (ast.NotIn, ast.In) or src(cp[0]) != sg:
                continue
            coll = cp[2]
            good = isinstance(coll, (ast.GeneratorExp, ast.ListComp, ast.SetComp)) and src(coll.elt).endswith('.id') \
                and len(coll.generators) == 1 and len(coll.generators[0].ifs) == 1 \
                and src(coll.generators[0].ifs[0]).endswith('.type == Transform.Type.DH')
            if good:
                it = inline(res, hk, coll.generators[0].iter, 4)
                t = src(it)
                good = t.startswith('self.request.get_payload(Payload.Type.SA') and t.endswith('.proposals[0].transforms')
            passing = 'F' if cp[1] is ast.NotIn else 'T'
            failing = 'T' if passing == 'F' else 'F'
            fn = [m for l2, m in c.succ if l2 == failing]
            raises = bool(fn) and all(isinstance(m.ast, ast.Raise) and 'NoProposalChosen' in src(m.ast) for m in fn)
            if good and common.dominated_by_edge(g, n, c, passing):
                ok = True
                ctx.check(raises, 'N4', 'a suggested group we never offered raises NoProposalChosen', key=('N4', 'raise'),
                          site=ctx.site(hk, c.ast))
        ctx.check(ok, 'N4', 'the suggested group is used only if it is a DH transform of our own outstanding proposal',
                  key=('N4', 'membership'), site=ctx.site(hk, x))

    # ---------------------------------------------------------------- N5
    check_routines(ctx)

    # ---------------------------------------------------------------- N6
    fi = ctx.func(IKESA + '._process_create_child_sa_negotiation_req')
    g = esc.add_exception_edges(fi)
    sel = [n for n, x in common.nodes_calling(ctx, fi, g, common.calls_named('_select_best_sa_proposal'))]
    inst = [n for n, x in common.nodes_calling(ctx, fi, g, common.calls_named('create_child_sa'))] + \
           [n for n, x in common.nodes_calling(ctx, fi, g, common.calls_named('append')) if 'child_sas' in src(x.func.value)]
    ctx.check(len(sel) == 1 and len(inst) >= 2 and all(n.id not in g.reach([g.entry], blocked_nodes=sel) for n in inst), 'N6',
              'on the responder, tracking and kernel installation happen only after a proposal was selected',
              key=('N6', 'select-dominates-install'), site=ctx.site(fi, fi.node))
    sb = ctx.func(IKESA + '._select_best_sa_proposal')
    gs = esc.add_exception_edges(sb)
    ctx.check('NoProposalChosen' in esc.escapes(sb), 'N6', 'no acceptable proposal raises NoProposalChosen', key=('N6', 'raises'),
              site=ctx.site(sb, sb.node))
    hs = [h for h in g.nodes if h.kind == 'handler' and h.ast.type is not None and 'NoProposalChosen' in src(h.ast.type)]
    ok = False
    for h in hs:
        rets = [s for s in h.ast.body if isinstance(s, ast.Return)]
        ok = ok or (len(rets) == 1 and src(rets[0].value) == '[PayloadNOTIFY.from_exception(%s)]' % h.ast.name)
    ctx.check(ok, 'N6', 'the refusal is answered with the single notification built from the exception', key=('N6', 'refusal-reply'),
              site=ctx.site(fi, fi.node))
    fe_tab = None
    for n in walk_no_nested(fe.node):
        if isinstance(n, ast.Assign) and isinstance(n.value, ast.Dict):
            fe_tab = {src(k): src(v).split('.')[-1] for k, v in zip(n.value.keys, n.value.values)}
    ctx.check(fe_tab is not None and fe_tab.get('NoProposalChosen') == 'NO_PROPOSAL_CHOSEN' and
              fe_tab.get('InvalidKePayload') == 'INVALID_KE_PAYLOAD', 'N6',
              'NoProposalChosen -> NO_PROPOSAL_CHOSEN and InvalidKePayload -> INVALID_KE_PAYLOAD', key=('N6', 'table'),
              site=ctx.site(fe, fe.node))


def mine_is_local(ctx, fi, e):
    k, _ = origin(ctx, fi, e)
    if k == 'local':
        return True
    if k == 'attr':
        return src(e) == 'self.chosen_proposal'     # the initiator's own offer (assigned in the request generator)
    ie = inline(ctx.res, fi, e, 4)
    if isinstance(ie, ast.IfExp):
        return mine_is_local(ctx, fi, ie.body) and mine_is_local(ctx, fi, ie.orelse)
    return False


def check_mine(ctx, fi, mine, site, desc):
    e = inline(ctx.res, fi, mine, 4)
    parts = [e.body, e.orelse] if isinstance(e, ast.IfExp) else [e]
    ok = True
    for p in parts:
        if isinstance(p, ast.Call) and callee_name(p) == 'copy_without_dh_transforms':
            p = p.func.value
        t = src(p)
        ok = ok and (t == 'self.configuration.proposal' or (
            t.endswith('.proposal') and '_get_ipsec_configuration(' in t and t.split('.proposal')[0].endswith('[0]')))
    ctx.check(ok, 'N2', '%s in %s: the local operand of the selection is the configured proposal of that SA kind' % (desc, fi.name),
              key=('N2', fi.qual, desc, 'mine'), site=site, detail={'found': src(e)[:120]})


def check_routines(ctx):
    prog, res = ctx.prog, ctx.res
    th = ctx.func('message.Transform.__hash__')
    rets = [n for n in walk_no_nested(th.node) if isinstance(n, ast.Return)]
    ok = len(rets) == 1 and isinstance(rets[0].value, ast.Call) and callee_name(rets[0].value) == 'hash' \
        and isinstance(rets[0].value.args[0], ast.Tuple) \
        and sorted(src(x) for x in rets[0].value.args[0].elts) == ['self.id', 'self.keylen', 'self.type']
    ctx.check(ok, 'N5', 'Transform identity covers exactly (type, id, keylen)', key=('N5', 'transform-hash'), site=ctx.site(th, th.node))
    te = ctx.func('message.Transform.__eq__')
    t = src(te.node.body[-1])
    ctx.check(t in ('return hash(self) == hash(other)', 'return hash(other) == hash(self)',
                    'return (self.type, self.id, self.keylen) == (other.type, other.id, other.keylen)'), 'N5',
              'Transform equality is identity of (type, id, keylen)', key=('N5', 'transform-eq'), site=ctx.site(te, te.node))
    it = ctx.func('message.Proposal.intersection')
    body = [s for s in it.node.body if not (isinstance(s, ast.Expr) and isinstance(s.value, ast.Constant))]
    ok = len(body) == 2 and isinstance(body[0], ast.If) and isinstance(body[1], ast.Return) and src(body[1].value) == 'None' \
        and not body[0].orelse
    sel = None
    if ok:
        cp = compare_parts(body[0].test)
        ok = cp is not None and cp[1] is ast.Eq and {src(cp[0]), src(cp[2])} == {'self.protocol_id', 'other.protocol_id'}
    if ok:
        inner = body[0].body
        ok = len(inner) == 3 and isinstance(inner[0], ast.Assign) and isinstance(inner[0].value, ast.Dict) and not inner[0].value.keys \
            and isinstance(inner[1], ast.For) and isinstance(inner[2], ast.If)
        if ok:
            sel = src(inner[0].targets[0])
            f1 = inner[1]
            ok = src(f1.iter) == 'self.transforms' and len(f1.body) == 1 and isinstance(f1.body[0], ast.For) \
                and src(f1.body[0].iter) == 'other.transforms' and not f1.orelse
            if ok:
                mine, peer = src(f1.target), src(f1.body[0].target)
                f2 = f1.body[0]
                ok = len(f2.body) == 1 and isinstance(f2.body[0], ast.If) and not f2.body[0].orelse
                if ok:
                    test = f2.body[0].test
                    atoms = sorted(src(v) for v in test.values) if isinstance(test, ast.BoolOp) and isinstance(test.op, ast.And) else []
                    ok = atoms in (sorted(['%s == %s' % (mine, peer), '%s.type not in %s' % (mine, sel)]),
                                   sorted(['%s == %s' % (peer, mine), '%s.type not in %s' % (mine, sel)]))
                    st = f2.body[0].body
                    ok = ok and len(st) == 1 and isinstance(st[0], ast.Assign) and src(st[0].targets[0]) == '%s[%s.type]' % (sel, mine) \
                        and src(st[0].value) in (mine, peer)
            fin = inner[2]
            cp = compare_parts(fin.test)
            ok = ok and cp is not None and cp[1] is ast.Eq and {src(cp[0]), src(cp[2])} == {
                'set(%s)' % sel, 'set((x.type for x in self.transforms))'} and not fin.orelse and len(fin.body) == 1 \
                and isinstance(fin.body[0], ast.Return) and isinstance(fin.body[0].value, ast.Call) \
                and callee_name(fin.body[0].value) == 'Proposal' \
                and [src(a) for a in fin.body[0].value.args] == ['other.num', 'self.protocol_id', 'other.spi',
                                                                 'list(%s.values())' % sel]
    ctx.check(ok, 'N5', 'Proposal.intersection: same protocol, one transform per local type chosen in local preference order '
              '(first match wins), success iff every local type is covered, number and SPI of the peer proposal',
              key=('N5', 'intersection-shape'), site=ctx.site(it, it.node))
    pe = ctx.func('message.Proposal.__eq__')
    t = src(pe.node.body[-1])
    ctx.check(t == 'return (self.protocol_id, set(self.transforms)) == (other.protocol_id, set(other.transforms))', 'N5',
              'Proposal equality compares protocol and the set of transforms', key=('N5', 'proposal-eq'), site=ctx.site(pe, pe.node))
    isub = ctx.func('message.Proposal.is_subset')
    t = ' '.join(src(s) for s in isub.node.body)
    ctx.check(t in ('intersection = self.intersection(other) return intersection is not None and intersection == self',
                    'intersection = self.intersection(other) return intersection is not None and self == intersection'), 'N5',
              'is_subset(other) holds iff the intersection with other exists and equals self', key=('N5', 'is-subset'),
              site=ctx.site(isub, isub.node))
    sb = ctx.func(IKESA + '._select_best_sa_proposal')
    ps = sb.call_params()
    body = [s for s in sb.node.body if not (isinstance(s, ast.Expr) and isinstance(s.value, ast.Constant))]
    ok = len(body) == 2 and isinstance(body[0], ast.For) and src(body[0].iter) == ps[1] + '.proposals' \
        and isinstance(body[1], ast.Raise) and 'NoProposalChosen' in src(body[1])
    if ok:
        lp = body[0]
        var = src(lp.target)
        ok = len(lp.body) == 2 and isinstance(lp.body[0], ast.Assign) and src(lp.body[0].value) == '%s.intersection(%s)' % (ps[0], var) \
            and isinstance(lp.body[1], ast.If) and src(lp.body[1].test) == src(lp.body[0].targets[0]) + ' is not None' \
            and len(lp.body[1].body) == 1 and isinstance(lp.body[1].body[0], ast.Return) \
            and src(lp.body[1].body[0].value) == src(lp.body[0].targets[0]) and not lp.body[1].orelse and not lp.orelse
    ctx.check(ok, 'N5', '_select_best_sa_proposal returns the intersection with the first acceptable peer proposal, in the '
              'order received, else raises NoProposalChosen', key=('N5', 'first-acceptable'), site=ctx.site(sb, sb.node))
    gt = ctx.func('message.Proposal.get_transform')
    ctx.check(src(gt.node.body[-1]) == 'return next((x for x in self.transforms if x.type == type))', 'N5',
              'get_transform returns the first transform of the type', key=('N5', 'get-transform'), site=ctx.site(gt, gt.node))


MANIFEST = {
    'level': 'All-paths static decision of validated-before-use: every proposal reaching key derivation, ChildSa(proposal=), '
             'chosen_proposal or a response SA payload is classified by origin (local configuration / result of '
             '_select_best_sa_proposal over the received SA payload / peer proposal dominated by the passing edges of is_subset or '
             'intersection-equality whose failing edges raise NoProposalChosen); the local operand is the configured proposal '
             '(DH dropped exactly for IKE_AUTH on both roles); DiffieHellman.from_group(peer group) is dominated by equality '
             'with the chosen DH transform (else InvalidKePayload naming it); the INVALID_KE retry accepts only offered groups; '
             'structural conformance of Transform identity, intersection (local preference, first match), is_subset and '
             'first-acceptable selection.',
    'note': 'Trusted: resolver typing. Declined: exhaustive semantics of intersection/is_subset over a transform universe.',
    'technique': 'origin/provenance classification + dominance + structural conformance of the validation routines',
    'design_ref': 'DESIGN.md 3/C11',
}
