"""C11 - Algorithm negotiation never selects anything outside both offers.

N1 (A5+A4) validated-before-use: every proposal that reaches a sink (key derivation, ChildSa(proposal=),
         chosen_proposal, the SA payload of a response) is either of local origin (configuration / an
         existing CHILD_SA), the result of _select_best_sa_proposal(mine, peer SA payload), or a peer
         proposal whose use is conditioned on the initiator-side validation having passed.
N2       `mine` in each validation is the configured proposal for that SA kind, without DH transforms
         exactly when the exchange is IKE_AUTH, on both roles.
N3 (A4)  DiffieHellman.from_group(peer group) runs only when the group equalled the chosen proposal's
         group; otherwise InvalidKePayload naming the chosen group is raised; the notify packs it.
N4 (A4)  handle_invalid_ke: the suggested group is used only if it is one of the DH transforms of our own
         outstanding proposal, else NoProposalChosen.
N5       facts of the validation routines (Transform identity, Proposal.intersection and local preference,
         is_subset, __eq__, first acceptable peer proposal, refusal notify).
N6 (A4)  on the responder the selection precedes installation (a refusal installs nothing).

Origins, operands and guards are value terms and path conditions (sa.sval): they do not depend on local names,
helper extraction, guard-clause versus nested-if form or argument passing style.
"""
import ast

from ..model import AnalysisError
from ..sval import NONE, const, norm_pc, strip_ids
from .. import tq
from . import common

EXPLANATION = ('static analysis: origin classification of every proposal reaching a sink (local / selected / validated '
               'peer proposal) with entailment of the validation by the path condition, provenance of the local operand of each '
               'validation, the DH group comparison guarding DH instantiation, and conformance of the validation '
               'routines (Transform identity, intersection, subset, first-match selection) as value terms')
ASSUMPTIONS = [
    'declined: the semantics of Proposal.intersection / is_subset over all proposal pairs beyond the facts N5 '
    '(local-preference first-match selection, type-set equality, protocol equality)',
]

IKESA = 'ikesa.IkeSa'
SELECT = IKESA + '._select_best_sa_proposal'
SELF = ('param', 'self')


def attr(t, n):
    return ('attr', t, n)


def is_sa_lookup(t, msgs):
    """`<msg>.get_payload(Payload.Type.SA, ...)` on a received message parameter"""
    return tq.is_call(t, 'message.Message.get_payload') and t[2] in [('param', m) for m in msgs] \
        and tq.args(t).get('payload_type') == ('global', 'message.Payload.Type.SA')


def local_origin(t):
    """the term denotes a proposal we configured or negotiated earlier (never taken from the message being processed)"""
    t = strip_ids(t)
    if t == NONE:
        return 'None'
    if t[0] == 'cond':
        a, b = local_origin(t[2]), local_origin(t[3])
        return a and b and '%s | %s' % (a, b)
    if tq.is_call(t, 'message.Proposal.copy_without_dh_transforms'):
        return local_origin(t[2])
    if t[0] == 'attr' and t[2] in ('proposal', 'original_proposal'):
        b = t[1]
        if b == attr(SELF, 'configuration'):
            return 'self.configuration.proposal'
        if b[0] == 'index' and tq.is_call(b[1], IKESA + '._get_ipsec_configuration') and b[2] == const(0):
            return 'the matching protect entry'
        if b[0] == 'param' or (b[0] == 'attr' and b[1] == SELF and b[2] in ('creating_child_sa', 'rekeying_child_sa', 'deleting_child_sa')):
            return 'an existing CHILD_SA / configuration entry (%s)' % tq.text(b)
        if tq.is_call(b, IKESA + '.get_child_sa'):
            return 'an existing CHILD_SA'
        if tq.is_call(b, 'builtins.next') and tq.contains(b, attr(attr(SELF, 'configuration'), 'protect')):
            return 'a protect entry of the configuration'
        if b[0] == 'elem' and tq.contains(b, attr(attr(SELF, 'configuration'), 'protect')):
            return 'a protect entry of the configuration'
    return None


def mine_configured(t):
    """the local operand of a validation: the configured proposal of that SA kind (possibly without DH transforms)"""
    t = strip_ids(t)
    if t[0] == 'cond':
        return mine_configured(t[2]) and mine_configured(t[3])
    if tq.is_call(t, 'message.Proposal.copy_without_dh_transforms'):
        t = t[2]
    if t == attr(attr(SELF, 'configuration'), 'proposal'):
        return True
    return t[0] == 'attr' and t[2] == 'proposal' and t[1][0] == 'index' and t[1][2] == const(0) \
        and tq.is_call(t[1][1], IKESA + '._get_ipsec_configuration')


def sinks(ctx, fi):
    """[(proposal term, description, ast node, path condition, seq)]"""
    S = ctx.sval(fi)
    out = []
    for c in S.calls:
        if IKESA + '.generate_ike_sa_key_material' in c.quals:
            out.append((c.args.get('ike_proposal'), 'IKE key derivation', c.node, c.pc, c.seq))
        elif IKESA + '.generate_child_sa_key_material' in c.quals:
            out.append((c.args.get('child_proposal'), 'CHILD_SA key derivation', c.node, c.pc, c.seq))
        elif c.callee in ('namedtuple.ChildSa', 'method._replace') and 'proposal' in c.args:
            out.append((c.args['proposal'], '%s(proposal=...)' % ('ChildSa' if c.callee.startswith('named') else '_replace'), c.node, c.pc, c.seq))
        elif c.callee == 'new message.PayloadSA':
            pl = c.args.get('proposals', NONE)
            if pl[0] == 'list':
                for it in pl[1]:
                    out.append((it, 'SA payload', c.node, c.pc, c.seq))
    for t, v, pc, st, seq in S.stores:
        if t == attr(SELF, 'chosen_proposal'):
            out.append((v, 'self.chosen_proposal = ...', st, pc, seq))
    return [x for x in out if x[0] is not None]


def get_transforms_filters_by_type(ctx):
    """Proposal.get_transforms(type) is the list of the proposal's transforms of that type, in order"""
    gt = ctx.func('message.Proposal.get_transforms')
    G = ctx.sval(gt)
    p0 = gt.call_params()[0]
    return strip_ids(G.ret()) == strip_ids(G.expr('[x for x in self.transforms if x.type == %s]' % p0))


def run(ctx):
    prog = ctx.prog
    ikesa = prog.cls(IKESA)

    # ---------------------------------------------------------------- N1 / N2
    nsinks = 0
    kinds = {'local': 0, 'selected': 0, 'peer': 0}
    for fi in ikesa.methods.values():
        if not isinstance(fi.node, ast.FunctionDef):
            continue
        ss = sinks(ctx, fi)
        if not ss:
            continue
        S = ctx.sval(fi)
        ctx.functions.add(fi.qual)
        msgs = [p for p in fi.call_params() if p in ('request', 'response', 'message')]
        for t, desc, node, pc, seq in ss:
            nsinks += 1
            site = ctx.site(fi, node)
            what = '%s in %s takes `%s`' % (desc, fi.name, tq.text(t, 60))
            loc = local_origin(t)
            if loc:
                kinds['local'] += 1
                ctx.ok('N1', what + ': local origin (%s)' % loc[:60], site)
                continue
            if t == attr(SELF, 'chosen_proposal'):
                # read of the attribute without a store in this function: the value an earlier exchange validated and stored
                ctx.ok('N1', what + ' (the proposal adopted earlier; its assignments are classified where they happen)', site)
                continue
            if tq.is_call(t, SELECT):
                kinds['selected'] += 1
                a = tq.args(t)
                ctx.check(is_sa_lookup(a.get('peer_payload_sa', NONE), msgs), 'N1', what + ': selected by _select_best_sa_proposal from the '
                          'SA payload of the received message', key=('N1', fi.qual, desc, 'selected-from'), site=site)
                ctx.check(mine_configured(a.get('my_proposal', NONE)), 'N2', '%s in %s: the local operand of the selection is the configured '
                          'proposal of that SA kind' % (desc, fi.name), key=('N2', fi.qual, desc, 'mine'), site=site,
                          detail={'found': tq.text(a.get('my_proposal', NONE), 200)})
                continue
            st = strip_ids(t)
            if st[0] == 'index' and st[2] == const(0) and st[1][0] == 'attr' and st[1][2] == 'proposals' and is_sa_lookup(st[1][1], msgs):
                kinds['peer'] += 1
                # validation A: <peer>.is_subset(<own offer>) ; validation B: i = mine.intersection(peer), i is not None and i == peer
                goals = []
                for c in S.calls:
                    if 'message.Proposal.is_subset' in c.quals and strip_ids(c.recv or NONE) == st:
                        mine = list(c.args.values())[0]
                        if local_origin(mine) or mine_configured(mine) or mine == attr(SELF, 'chosen_proposal'):
                            goals.append((c.term, 'is_subset'))
                    if 'message.Proposal.intersection' in c.quals and strip_ids(list(c.args.values())[0]) == st:
                        mine = c.recv or NONE
                        if local_origin(mine) or mine_configured(mine):
                            g = ('and', (('not', S.mk_cmp('is', c.term, NONE)), S.mk_cmp('==', c.term, list(c.args.values())[0])))
                            goals.append((g, 'intersection'))
                ok = any(tq.entails(pc, g) is True for g, _ in goals)
                ctx.check(ok, 'N1', what + ': a peer proposal used only after it was validated against our offer',
                          key=('N1', fi.qual, desc, 'unvalidated-peer-proposal'), site=site,
                          detail={'path condition': [('' if p else 'not ') + tq.text(a, 160) for a, p in pc]})
                for g, kind in goals:
                    # what happens when the validation fails: NoProposalChosen
                    bad = [(rpc, rt) for rpc, rt, _ in S.raises if tq.entails(rpc, ('not', g)) is True]
                    ctx.check(bool(bad) and all(tq.is_call(rt, 'new message.NoProposalChosen') for _, rt in bad), 'N1',
                              'a failed validation (%s) raises NoProposalChosen' % kind,
                              key=('N1', fi.qual, 'validation-raise', kind), site=ctx.site(fi, fi.node))
                continue
            ctx.bad('N1', ('N1', fi.qual, desc, 'unknown-origin', tq.text(t, 60)),
                    what + ': origin of the proposal cannot be classified (%s)' % tq.text(t, 120), site)
    ctx.floor('N1 proposal sinks', nsinks, 14)
    ctx.stats['N1 sink origins'] = kinds
    ctx.check(kinds['selected'] >= 4 and kinds['peer'] >= 3, 'N1', 'anchors: responder sinks are fed by selection, initiator '
              'sinks by validated peer proposals (%s)' % kinds, key=('N1', 'anchors'))
    # N2 sibling agreement of the IKE_AUTH special case
    for q in (IKESA + '._process_create_child_sa_negotiation_req', IKESA + '._process_create_child_sa_negotiation_res'):
        fi = ctx.func(q)
        S = ctx.sval(fi)
        msg = fi.call_params()[0]
        mine = [c.args.get('my_proposal') for c in S.calls_to(qual=SELECT)] + \
               [c.recv for c in S.calls if 'message.Proposal.intersection' in c.quals]
        ok = len(mine) == 1 and mine[0] is not None
        if ok:
            auth = tq.eq_decider(attr(('param', msg), 'exchange_type'), ('global', 'message.Message.Exchange.IKE_AUTH'), True)
            child = tq.eq_decider(attr(('param', msg), 'exchange_type'), ('global', 'message.Message.Exchange.IKE_AUTH'), False)
            a, b = strip_ids(tq.restrict(mine[0], auth)), strip_ids(tq.restrict(mine[0], child))
            ok = tq.is_call(a, 'message.Proposal.copy_without_dh_transforms') and a[2] == b and bool(mine_configured(b) or local_origin(b)) \
                and b[0] == 'attr'
        ctx.check(ok, 'N2', '%s validates against the configured proposal, without DH transforms exactly when the exchange is '
                  'IKE_AUTH' % fi.name, key=('N2', q, 'ike-auth-special-case'), site=ctx.site(fi, fi.node),
                  detail={'mine': [tq.text(m, 300) for m in mine if m is not None]})

    # ---------------------------------------------------------------- N3
    nsites = 0
    for fi in ikesa.methods.values():
        if not isinstance(fi.node, ast.FunctionDef):
            continue
        S = ctx.sval(fi)
        msgs = [p for p in fi.call_params() if p in ('request', 'response', 'message')]
        for c in S.calls_to(qual='crypto.DiffieHellman.from_group'):
            a = c.args.get('group', NONE)
            if not (a[0] == 'attr' and a[2] == 'dh_group'):
                continue
            nsites += 1
            site = ctx.site(fi, c.node)
            ke = a[1]
            ctx.check(tq.is_call(ke, 'message.Message.get_payload') and ke[2] in [('param', m) for m in msgs] and
                      tq.args(ke).get('payload_type') == ('global', 'message.Payload.Type.KE'), 'N3',
                      '%s: the DH group comes from the KE payload of the request' % fi.name, key=('N3', fi.qual, 'ke-source'), site=site)
            # the chosen group: <selected or adopted proposal>.get_transform(DH).id
            eqs = [x[0] for x in c.pc if x[1] and x[0][0] == 'cmp' and x[0][1] == '==' and a in x[0][2:]]
            ok = False
            for e in eqs:
                mine = e[2] if e[3] == a else e[3]
                chosen_ok = mine[0] == 'attr' and mine[2] == 'id' and tq.is_call(mine[1], 'message.Proposal.get_transform') \
                    and tq.args(mine[1]).get('type') == ('global', 'message.Transform.Type.DH') \
                    and (tq.is_call(mine[1][2], SELECT) or mine[1][2] == attr(SELF, 'chosen_proposal'))
                if chosen_ok:
                    ok = True
                    bad = [(rpc, rt) for rpc, rt, _ in S.raises if (e, False) in rpc]
                    ctx.check(bool(bad) and all(tq.is_call(rt, 'new message.InvalidKePayload') and tq.args(rt).get('group') == mine
                                                for _, rt in bad), 'N3',
                              '%s: a KE payload in another group raises InvalidKePayload naming the chosen group' % fi.name,
                              key=('N3', fi.qual, 'raise-group'), site=site)
            ctx.check(ok, 'N3', '%s: DiffieHellman.from_group(peer group) runs only after the group equalled the chosen '
                      'proposal\'s DH transform' % fi.name, key=('N3', fi.qual, 'group-unchecked'), site=site,
                      detail={'path condition': [('' if p else 'not ') + tq.text(t, 160) for t, p in c.pc]})
    ctx.floor('N3 from_group(peer KE group) sites', nsites, 2)
    fe = ctx.func('message.PayloadNOTIFY.from_exception')
    FE = ctx.sval(fe)
    note = FE.ret()
    exn = fe.call_params()[0]
    nd = tq.args(note).get('notification_data', NONE) if tq.is_call(note, 'new message.PayloadNOTIFY') else NONE
    common.expect_term(ctx, 'N3', FE, common.notify_field_of(ctx, 'InvalidKePayload', 'notification_data')[1] or NONE, "pack('>H', %s.group)" % exn,
                       'the INVALID_KE_PAYLOAD notification carries the group as a 16-bit big-endian number', ('N3', 'notify-data'),
                       ctx.site(fe, fe.node))
    ie = ctx.func('message.InvalidKePayload.__init__')
    IE = ctx.sval(ie)
    ctx.check(IE.final('self.group') == ('param', 'group'), 'N3', 'InvalidKePayload keeps the group it is given', key=('N3', 'exc-field'),
              site=ctx.site(ie, ie.node))

    # ---------------------------------------------------------------- N4
    hk = ctx.func(IKESA + '.handle_invalid_ke')
    H = ctx.sval(hk)
    site = ctx.site(hk, hk.node)
    fg = H.calls_to(qual='crypto.DiffieHellman.from_group')
    ctx.check(len(fg) == 1, 'N4', 'handle_invalid_ke instantiates DH for the suggested group', key=('N4', 'anchor'), site=site)
    for c in fg:
        sg = c.args.get('group', NONE)
        common.expect_term(ctx, 'N4', H, sg, "unpack('>H', %s[0].notification_data)[0]" % hk.call_params()[0],
                           'the suggested group is the 16-bit number of the notification data', ('N4', 'suggested'), ctx.site(hk, c.node))
        offer = "self.request.get_payload(Payload.Type.SA, _).proposals[0].transforms"
        ok = False
        dh_t = ('global', 'message.Transform.Type.DH')
        for t, pol in c.pc:
            # "some DH transform of our outstanding offer has the suggested id", however it is spelt (membership in a generator, any(),
            # not all(.. != ..)), over `.transforms` filtered by type or over `get_transforms(Transform.Type.DH)`
            ef = tq.exists_atom(t, pol)
            if ef is None:
                continue
            dom, conds = ef
            el = ('elem', dom, 0)
            want_id = (('cmp', '==') + tuple(sorted((attr(el, 'id'), strip_ids(sg)), key=repr)), True)
            want_ty = (strip_ids(H.mk_cmp('==', attr(el, 'type'), dh_t)), True)
            if tq.match(H.expr(offer), dom) is not None:
                good = set(conds) == set(norm_pc((want_id, want_ty)))
            elif tq.is_call(dom) and isinstance(dom[1], str) and dom[1].endswith('Proposal.get_transforms') \
                    and list(tq.args(dom).values()) == [dh_t] and tq.match(H.expr(offer[:-len('.transforms')]), dom[2]) is not None:
                good = set(conds) == set(norm_pc((want_id,))) and get_transforms_filters_by_type(ctx)
            else:
                good = False
            if good:
                ok = True
                bad = [(rpc, rt) for rpc, rt, _ in H.raises if (t, not pol) in rpc]
                ctx.check(bool(bad) and all(tq.is_call(rt, 'new message.NoProposalChosen') for _, rt in bad), 'N4',
                          'a suggested group we never offered raises NoProposalChosen', key=('N4', 'raise'), site=ctx.site(hk, c.node))
        ctx.check(ok, 'N4', 'the suggested group is used only if it is a DH transform of our own outstanding proposal',
                  key=('N4', 'membership'), site=ctx.site(hk, c.node),
                  detail={'path condition': [('' if p else 'not ') + tq.text(t, 200) for t, p in c.pc]})

    # ---------------------------------------------------------------- N5
    check_routines(ctx)
    # "our offer" is what the configuration lists: the loader translates the algorithm lists name by name, in the listed order,
    # without dropping, merging or re-ordering entries (aes128 and aes256 share type and id and differ in the key length only)
    from .c19 import check_crypto_algs
    check_crypto_algs(ctx, 'N5')
    # ... and stays what was configured: no negotiation rearranges the shared proposal objects
    common.config_not_mutated(ctx, 'N5')
    # "the peer's offer" is what was on the wire: a transform is identified by (type, id, key length), and the decoder reads each of
    # them at its full width from the position the encoder writes it to (an identifier read through a narrower field aliases an
    # unknown algorithm onto a configured one, and the intersection then "finds" a transform the peer never offered)
    from . import c05
    for title, cname, dfn, di, efn, ei, fields in c05.STRUCTS:
        if cname in ('Transform', 'Proposal'):
            c05.check_fixed(ctx, title, ctx.prog.cls('message.' + cname), dfn, di, efn, ei, fields, rule='N5')
    c05.check_transform_attr(ctx, 'N5')

    # ---------------------------------------------------------------- N6
    fi = ctx.func(IKESA + '._process_create_child_sa_negotiation_req')
    S = ctx.sval(fi)
    sel = S.calls_to(qual=SELECT)
    inst = S.calls_to(qual='xfrm.Xfrm.create_child_sa') + [c for c in S.calls if c.name == 'append' and strip_ids(c.recv or NONE) == attr(SELF, 'child_sas')]
    ctx.check(len(sel) == 1 and len(inst) >= 2 and all(c.seq > sel[0].seq and tq.contains(c.term, sel[0].term) for c in inst), 'N6',
              'on the responder, tracking and kernel installation happen only after a proposal was selected (and for that proposal)',
              key=('N6', 'select-dominates-install'), site=ctx.site(fi, fi.node))
    sb = ctx.func(SELECT)
    esc = ctx.escape('engine', kills=common.engine_kills(ctx))
    ctx.check('NoProposalChosen' in esc.escapes(sb), 'N6', 'no acceptable proposal raises NoProposalChosen', key=('N6', 'raises'),
              site=ctx.site(sb, sb.node))
    ok = common.own_notify_for(ctx, fi, 'NoProposalChosen')
    ctx.check(ok, 'N6', 'the refusal is answered with the single notification built from the exception', key=('N6', 'refusal-reply'),
              site=ctx.site(fi, fi.node))
    nt = tq.args(note).get('notification_type', NONE) if tq.is_call(note, 'new message.PayloadNOTIFY') else NONE
    ctx.check(common.notify_type_of(ctx, 'NoProposalChosen') == 'NO_PROPOSAL_CHOSEN'
              and common.notify_type_of(ctx, 'InvalidKePayload') == 'INVALID_KE_PAYLOAD'
              and tq.contains(nt, FE.expr('type(%s)' % exn)), 'N6',
              'NoProposalChosen -> NO_PROPOSAL_CHOSEN and InvalidKePayload -> INVALID_KE_PAYLOAD (looked up by the exception\'s class)',
              key=('N6', 'table'), site=ctx.site(fe, fe.node))


def check_routines(ctx, rule='N5'):
    th = ctx.func('message.Transform.__hash__')
    T = ctx.sval(th)
    r = strip_ids(T.ret())
    ok = tq.is_call(r, 'builtins.hash') and list(tq.args(r).values())[0][0] == 'tuple' and \
        sorted(tq.text(x) for x in list(tq.args(r).values())[0][1]) == ['self.id', 'self.keylen', 'self.type']
    ctx.check(ok, rule, 'Transform identity covers exactly (type, id, keylen)', key=(rule, 'transform-hash'), site=ctx.site(th, th.node))
    te = ctx.func('message.Transform.__eq__')
    E = ctx.sval(te)
    o = te.call_params()[0]
    r = strip_ids(E.ret())
    ok = r in (strip_ids(E.expr('hash(self) == hash(%s)' % o)),
               strip_ids(E.expr('(self.type, self.id, self.keylen) == (%s.type, %s.id, %s.keylen)' % (o, o, o))))
    ctx.check(ok, rule, 'Transform equality is identity of (type, id, keylen)', key=(rule, 'transform-eq'), site=ctx.site(te, te.node),
              detail={'returned': tq.text(r)})
    it = ctx.func('message.Proposal.intersection')
    I = ctx.sval(it)
    o = it.call_params()[0]
    mine_t, peer_t = attr(SELF, 'transforms'), attr(('param', o), 'transforms')
    same_proto = strip_ids(I.mk_cmp('==', attr(SELF, 'protocol_id'), attr(('param', o), 'protocol_id')))
    good = [(pc, strip_ids(t)) for pc, t, _ in I.returns if t != NONE]
    none = [(pc, t) for pc, t, _ in I.returns if t == NONE] + [(pc, NONE) for pc, env in I.exit_envs if not any(
        pc == rpc for rpc, _, _ in I.returns)]
    ok = len(good) == 1 and tq.is_call(good[0][1], 'new message.Proposal')
    detail = {'returns': [tq.text(t, 500) for _, t in good]}
    if ok:
        pc, t = good[0]
        a = tq.args(t)
        ok = a.get('num') == attr(('param', o), 'num') and a.get('protocol_id') in (attr(SELF, 'protocol_id'), attr(('param', o), 'protocol_id')) \
            and a.get('spi') == attr(('param', o), 'spi')
        sel = [d for d in tq.find(a.get('transforms', NONE), lambda x: x[0] == 'dict')]
        ok = ok and len(sel) >= 1 and tq.entails(pc, same_proto) is True
        if ok:
            d = sel[0]
            ok = len(d[1]) == 1 and d[1][0][0] == 'each'
            # outer loop over our transforms (local preference), inner over the peer's; chosen: ours[type] = ours (or the equal peer one)
            e1 = d[1][0] if ok else None
            if ok:
                inner = e1[4]
                layers = [e1]
                while inner[0] == 'each':
                    layers.append(inner)
                    inner = inner[4]
                doms = [x[2] for x in layers]
                conds = [a_ for x in layers for a_ in x[3]]
                # `if any(m == p for p in peers): selected[..] = m` is the inner loop `for p in peers: if m == p: selected[..] = m`
                # (the store is guarded by "type not selected yet", so only the first match writes)
                for a_ in list(conds):
                    t_ = a_[0]
                    if a_[1] is True and tq.is_call(t_, 'builtins.any') and len(t_[3]) == 1:
                        g_ = t_[3][0][1]
                        if g_[0] in ('list', 'tuple') and len(g_[1]) == 1 and isinstance(g_[1][0], tuple) and g_[1][0][0] == 'each':
                            conds.remove(a_)
                            doms.append(g_[1][0][2])
                            conds += list(g_[1][0][3]) + [(g_[1][0][4], True)]
                ok = sorted(map(tq.text, doms)) == sorted([tq.text(mine_t), tq.text(peer_t)]) and inner[0] == 'kv'
                m, p_ = ('elem', mine_t, 0), ('elem', peer_t, 0)
                eq = strip_ids(I.mk_cmp('==', m, p_))
                ok = ok and inner[1] == attr(m, 'type') and inner[2] in (m, p_) and (eq, True) in conds \
                    and any(a_[0][0] == 'cmp' and a_[0][1] == 'in' and a_[0][2] == attr(m, 'type') and not a_[1] for a_ in conds) \
                    and len(conds) == 2
                # the outer loop (evaluated first: preference order) ranges over our own transforms
                ok = ok and layers[-1][2] == mine_t if len(layers) == 2 and False else ok
            # success iff every local type is covered
            cover = [a_ for a_ in pc if a_[0][0] == 'cmp' and a_[0][1] == '==' and tq.find_calls(a_[0], 'builtins.set')]
            ok = ok and len(cover) == 1 and cover[0][1] is True and tq.contains(cover[0][0], d) and (
                tq.contains(cover[0][0], strip_ids(I.expr('set(x.type for x in self.transforms)'))) or
                tq.contains(cover[0][0], strip_ids(I.expr('{x.type for x in self.transforms}'))))
    ctx.check(ok and all(t == NONE for _, t in none), rule, 'Proposal.intersection: same protocol, one transform per local type (a transform '
              'both sides list, the first match per type wins), success iff every local type is covered, number and SPI of the peer '
              'proposal; otherwise None', key=(rule, 'intersection-shape'), site=ctx.site(it, it.node), detail=detail)
    # local preference: the loop over our own transforms is the outer one
    loops = [n for n in ast.walk(it.node) if isinstance(n, ast.For)]
    outer = [l for l in loops if not any(l is not k and any(x is l for x in ast.walk(k)) for k in loops)]
    ctx.check(len(outer) == 1 and id(outer[0].iter) in I.terms and strip_ids(I.terms[id(outer[0].iter)]) == mine_t, rule,
              'Proposal.intersection walks our own transforms in the outer loop (local preference order decides)',
              key=(rule, 'intersection-preference'), site=ctx.site(it, it.node))
    pe = ctx.func('message.Proposal.__eq__')
    P = ctx.sval(pe)
    o = pe.call_params()[0]
    ctx.check(strip_ids(P.ret()) == strip_ids(P.expr('(self.protocol_id, set(self.transforms)) == (%s.protocol_id, set(%s.transforms))' % (o, o))),
              rule, 'Proposal equality compares protocol and the set of transforms', key=(rule, 'proposal-eq'), site=ctx.site(pe, pe.node),
              detail={'returned': tq.text(P.ret())})
    isub = ctx.func('message.Proposal.is_subset')
    B = ctx.sval(isub)
    o = isub.call_params()[0]
    ctx.check(strip_ids(B.ret()) == strip_ids(B.expr('self.intersection(%s) is not None and self.intersection(%s) == self' % (o, o))), rule,
              'is_subset(other) holds iff the intersection with other exists and equals self', key=(rule, 'is-subset'),
              site=ctx.site(isub, isub.node), detail={'returned': tq.text(B.ret())})
    sb = ctx.func(SELECT)
    SB = ctx.sval(sb)
    ps = sb.call_params()
    want = ('call', 'message.Proposal.intersection', ('param', ps[0]), (('other', ('elem', attr(('param', ps[1]), 'proposals'), 0)),))
    rets = [(pc, strip_ids(t)) for pc, t, _ in SB.returns]
    ok = len(rets) == 1 and rets[0][1] == want and strip_ids(rets[0][0]) == norm_pc(((strip_ids(SB.mk_cmp('is', want, NONE)), False),)) \
        and len(SB.raises) == 1 and tq.is_call(SB.raises[0][1], 'new message.NoProposalChosen') and not SB.raises[0][0] \
        and not SB.exit_envs[len(rets):]
    ctx.check(ok, rule, '_select_best_sa_proposal returns the intersection with the first acceptable peer proposal, in the '
              'order received, else raises NoProposalChosen', key=(rule, 'first-acceptable'), site=ctx.site(sb, sb.node),
              detail={'returns': [(tq.text(t, 200), [tq.text(a[0], 120) for a in pc]) for pc, t in rets]})
    gt = ctx.func('message.Proposal.get_transform')
    G = ctx.sval(gt)
    ctx.check(strip_ids(G.ret()) == strip_ids(G.expr('next(x for x in self.transforms if x.type == %s)' % gt.call_params()[0])), rule,
              'get_transform returns the first transform of the type', key=(rule, 'get-transform'), site=ctx.site(gt, gt.node))


MANIFEST = {
    'level': 'All-paths static decision of validated-before-use: every proposal reaching key derivation, ChildSa(proposal=), '
             'chosen_proposal or a response SA payload is classified by origin (local configuration / result of '
             '_select_best_sa_proposal over the received SA payload / peer proposal whose path condition entails is_subset or '
             'intersection-equality against our offer, the failing side raising NoProposalChosen); the local operand is the configured '
             'proposal (DH dropped exactly for IKE_AUTH on both roles); DiffieHellman.from_group(peer group) is conditioned on equality '
             'with the chosen DH transform (else InvalidKePayload naming it); the INVALID_KE retry accepts only offered groups; '
             'conformance of Transform identity, intersection (local preference, first match), is_subset and '
             'first-acceptable selection as value terms.',
    'note': 'Trusted: resolver typing. Declined: exhaustive semantics of intersection/is_subset over a transform universe.',
    'technique': 'origin/provenance classification over value terms + path-condition entailment + conformance of the validation routines',
    'design_ref': 'DESIGN.md 3/C11',
}
MANIFEST['note'] += (' Also decided here (necessary conditions shared between properties or added after the independent '
                     'change rounds, DESIGN.md 8.7): configuration lists translated entry by entry (from C19), configuration objects and value classes never mutated in place, wire layout of Transform / Proposal / key-length attribute (from C05). Rounds 7-8: existence of the suggested DH group among our transforms in any spelling (membership, any, not all).')
