"""C06 - Parsing any byte string terminates and fails only with a protocol error.

T1 (A2)  every loop in the call-graph reach of Message.parse has a variant; no recursion.
T2 (A1)  the escape set of Message.parse is a subset of the IkeSaError family; octets read from the wire are compared with
         enumeration members by value, never by identity.
"""
import ast

from ..loops import Loops
from ..model import src
from . import common

EXPLANATION = ('static analysis: loop-variant proof for every loop reachable from Message.parse (cursor/shrink/grow '
               'shapes with guard and short-input facts) and interprocedural exception-escape analysis of '
               'Message.parse over the effect catalogue; both quantify over all byte strings')
ASSUMPTIONS = [
    'EncrError / AES key-size ValueError are unreachable: Crypto objects are only constructed in '
    'IkeSa.generate_ike_sa_key_material from keys split with the same cipher\'s key_size (who-constructs rule '
    'checked on every run)',
    'linear time: every cursor loop advances >= 1 octet per iteration over disjoint slices, nesting depth is '
    'fixed (payload/proposal/transform/attribute) and the reach has no recursion; the constant is not decided',
]

ROOT = 'message.Message.parse'


def run(ctx):
    prog, res = ctx.prog, ctx.res
    parse = ctx.func(ROOT)
    kills = common.crypto_kills(ctx)
    esc = ctx.escape('c06', kills=kills)
    loops = Loops(prog, res, esc)

    # ---------------------------------------------------------------- T1 loops
    results, quals = loops.check_reach([parse])
    for q in quals:
        ctx.functions.add(q)
    nwhile = sum(1 for r in results if r['kind'] == 'while')
    ctx.stats['T1 while loops (after counting loops were put in for-range form)'] = nwhile
    ctx.floor('T1 loops in the reach of Message.parse', len(results), 5)
    ctx.floor('T1 functions in the reach of Message.parse', len(quals), 25)
    registry = common.payload_registry(ctx)
    ctx.floor('T1 registered payload parsers', len(registry), 12)
    for k, c in registry.items():
        m = c.lookup('parse')
        ctx.require(m is not None and m.qual in quals,
                    'registered payload class %s has no parse method in the reach' % c.qual)
    for r in results:
        fi, loop = r['fi'], r['loop']
        what = 'loop `%s` in %s has a variant (%s)' % (
            ('while ' + src(loop.test)) if isinstance(loop, ast.While) else
            'for %s in %s' % (src(loop.target), src(loop.iter)), fi.qual, r['shape'])
        if r['ok']:
            ctx.ok('T1', what, ctx.site(fi, loop))
        else:
            key = ('T1', fi.qual, 'while ' + src(loop.test) if isinstance(loop, ast.While) else src(loop.iter))
            ctx.bad('T1', key, 'loop may not terminate: %s in %s: %s' % (
                'while ' + src(loop.test) if isinstance(loop, ast.While) else src(loop.iter), fi.qual,
                '; '.join(r['problems'][:3])), ctx.site(fi, loop), {'problems': r['problems']})
    cycles = loops.recursion(set(quals))
    # Payload.to_dict -> super().to_dict is not in this reach; any cycle here is recursion on input
    ctx.check(not cycles, 'T1', 'no recursion in the reach of Message.parse (call graph acyclic)',
              key=('T1', 'recursion', str(cycles[:1])), detail={'cycles': cycles})

    # ---------------------------------------------------------------- T2 escape set
    # the escape analysis below reads `payload.type == T` tests as "the object has class type_2_payload[T]" (and therefore the
    # attributes that class sets): that holds when every registry entry's class declares the type it is registered under
    from .c05 import registry_consistent
    registry_consistent(ctx, 'T2')
    hier = esc.hier
    family = 'IkeSaError'
    ctx.require(hier.known(family), 'anchor vanished: protocol-error base class IkeSaError')
    escaping = esc.escapes(parse)
    ctx.floor('T2 exception classes leaving Message.parse', len(escaping), 1)
    # an attribute set only under `payload_type == SK` and read under `payloads[-1].type == SK` is there when both tests agree:
    # they do as long as the octet read from the wire is compared by value (identity with an enumeration member fails for a plain int,
    # the SK payload is then built without its next_payload_type and reading it raises AttributeError)
    ctx.stats['T2 identity comparisons with enumeration members in the reach'] = common.identity_with_raw_int(ctx, 'T2', quals)
    allowed_seen = []
    for exc, origins in sorted(escaping.items()):
        if hier.is_sub(exc, family):
            allowed_seen.append(exc)
            ctx.ok('T2', 'escaping class %s is a protocol error (%d raise sites)' % (exc, len(origins)))
            continue
        for origin, chain in origins.items():
            ctx.bad('T2', ('T2', exc, origin),
                    'Message.parse can raise %s (not a protocol error): %s' % (exc, origin),
                    chain[-1].split(' ')[0], {'witness': chain})
    ctx.stats['T2 protocol-error classes actually raised'] = allowed_seen
    ctx.stats['T2 killed effects (frozen assumptions)'] = sorted(set('%s %s: %s' % (a, b, d) for a, b, c, d in esc.killed
                                                                      if a in quals))[:20]
    # every catalogue effect inside the reach is accounted: count them
    neff = 0
    for q in quals:
        fi = prog.functions.get(q)
        if fi is None:
            continue
        dmap, _ = esc.direct(fi)
        neff += sum(len(v) for v in dmap.values())
    ctx.stats['T2 catalogue effects in reach'] = neff
    ctx.ok('T2', '%d catalogue effects in %d functions routed through handlers; %d classes escape' % (
        neff, len(quals), len(escaping)))
    ctx.stats['uncatalogued library calls'] = sorted(esc.uncatalogued)

MANIFEST = {
    'level': 'All-paths static decision for every byte string: (T1) each loop in the call-graph reach of Message.parse '
             'is matched to a termination variant whose progress fact (explicit guard or callee short-input summary) '
             'is derived on every back-edge path; (T2) the interprocedural exception-escape set of Message.parse, '
             'computed over an explicit effect catalogue with handler matching by class hierarchy, is contained in '
             'the IkeSaError family. This is the full statement of C06 inside the stated catalogue envelope; tests '
             'sample inputs, this quantifies over paths.',
    'note': 'Trusted: the effect catalogue (DESIGN 2.4) as the set of operations that can raise; the receiver-typing '
            'table of the resolver; who-constructs rule for Crypto (re-checked each run) to discard key-size errors; '
            'the constant in "linear" is not decided.',
    'technique': 'ast CFG + loop-variant analysis + interprocedural exception-escape fixpoint',
    'design_ref': 'DESIGN.md 3/C06, 2.4, 2.5 A1-A2',
}
MANIFEST['note'] += (' Also decided here (necessary conditions shared between properties or added after the independent '
                     'change rounds, DESIGN.md 8.7): registry consistency (from C05). Rounds 7-8: no identity test / enumeration attribute on raw integers from the wire; range() step that can be 0.')
