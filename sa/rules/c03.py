"""C03 - Unprotected or forged messages cannot affect an IKE_SA that has keys.

U1 (A4)  verify-then-decrypt: in Message.parse the integrity comparison dominates decryption and
         inner parsing, and its failing edge raises a protocol error.
U2 (A4, path-complete over Message.parse o IkeSa.process_message)  when keys exist, every path of
         process_message from entry to its first effect (store to self.*, dispatch to the
         request/response processing) has traversed the passing edge of that comparison.  The
         composition is decided through the "protected" indicator the parser leaves on the
         message: on every normal-return path of the full parse the indicator is set only if
         the MAC edge was passed, and process_message tests it before any effect.  The only
         exception is the one the property grants: a retransmitted IKE_SA_INIT request is
         handed to the window code, whose previous-ID branch only re-sends the stored response.
U3 (A5)  every payload lookup on a received message in a handler reachable for an exchange other
         than IKE_SA_INIT reads the encrypted list (constant True, or a parameter bound to True
         at every such caller).
U4 (A1)  what leaves Message.parse is a protocol error (shared with C06).
"""
import ast

from ..cfg import path_facts
from ..model import AnalysisError, src, walk_no_nested
from ..terms import callee_name, compare_parts, inline, kwargs_of, single_def
from . import common

EXPLANATION = ('static analysis: dominance of decryption by the MAC comparison, path enumeration of Message.parse to '
               'establish the post-condition of the "protected" indicator, blocked-edge reachability in '
               'IkeSa.process_message proving that no effect is reachable for an unprotected message once keys exist, '
               'and classification of every payload lookup by the exchange types of the handlers that reach it')
ASSUMPTIONS = [
    'HMAC cannot be forged (trusted); replay/reflection histories are covered by the window rules of C08',
    'the indicator form is the one the repository uses (an attribute of the parsed Message tested in process_message); '
    'a different but equivalent design (e.g. Message.parse raising for every unprotected message) would need the rule '
    'to be extended and is reported as ANALYSIS-ERROR/violation, not silently accepted',
]

LOOKUPS = ('get_payload', 'get_payloads', 'get_notifies')
INIT = 'IKE_SA_INIT'


def self_mutators(ctx):
    """functions that (transitively) store to an attribute of an object, mutate a list held in an attribute, or
    talk to the kernel"""
    direct = set()
    for fi in ctx.prog.all_functions():
        if fi.name == '__init__':
            continue
        for n in walk_no_nested(fi.node):
            if isinstance(n, (ast.Assign, ast.AugAssign)):
                tg = n.targets if isinstance(n, ast.Assign) else [n.target]
                for t in tg:
                    for x in ast.walk(t):
                        if isinstance(x, ast.Attribute) and isinstance(x.ctx, ast.Store) and fi.cls is not None \
                                and fi.cls.qual == 'ikesa.IkeSa':
                            direct.add(fi.qual)
            elif isinstance(n, ast.Call) and isinstance(n.func, ast.Attribute) and n.func.attr in (
                    'append', 'remove', 'clear', 'insert', 'pop') and src(n.func.value).startswith('self.'):
                direct.add(fi.qual)
            elif isinstance(n, ast.Call) and src(n.func).startswith('xfrm.Xfrm.'):
                direct.add(fi.qual)
    graph = ctx.res.call_graph()
    out = set(direct)
    changed = True
    while changed:
        changed = False
        for q, callees in graph.items():
            if q not in out and callees & out:
                out.add(q)
                changed = True
    return out


def flag_edge(cond, msg_name):
    """(attribute, label of the edge on which `msg.<attribute>` is known to be set/truthy) for a
    condition atom testing an attribute of the parsed message, else None"""
    e = cond.ast
    cp = compare_parts(e)
    if cp is not None and isinstance(cp[0], ast.Attribute) and src(cp[0].value) == msg_name \
            and isinstance(cp[2], ast.Constant) and cp[2].value is None:
        if cp[1] is ast.Is:
            return cp[0].attr, 'F'
        if cp[1] is ast.IsNot:
            return cp[0].attr, 'T'
    if isinstance(e, ast.Attribute) and src(e.value) == msg_name:
        return e.attr, 'T'
    return None


def run(ctx):
    prog, res = ctx.prog, ctx.res
    esc = ctx.escape('engine', kills=common.engine_kills(ctx))

    # ---------------------------------------------------------------- U1
    macs = common.mac_check(ctx, esc)
    ctx.check(len(macs) == 1, 'U1', 'Message.parse compares the received checksum with integrity.compute(...) '
              '(%d comparison(s) found)' % len(macs), key=('U1', 'no-mac-comparison'))
    if len(macs) != 1:
        return
    parse, g, mac, passing, computed, received = macs[0]
    failing = 'T' if passing == 'F' else 'F'
    fail_nodes = [m for lab, m in mac.succ if lab == failing]
    ok = bool(fail_nodes) and all(m.kind == 'stmt' and isinstance(m.ast, ast.Raise) for m in fail_nodes)
    if ok:
        for m in fail_nodes:
            exc = [e for e in (m.raises or {})]
            ok = ok and exc and all(esc.hier.is_sub(e, 'IkeSaError') for e in exc)
    ctx.check(ok, 'U1', 'a checksum mismatch raises a protocol error', key=('U1', 'mismatch-not-raised'),
              site=ctx.site(parse, mac.ast))
    dec = common.nodes_calling(ctx, parse, g, common.calls_named('decrypt'))
    ctx.check(len(dec) >= 1, 'U1', 'Message.parse decrypts the SK payload', key=('U1', 'no-decrypt'))
    inner = []
    for n, x in common.nodes_calling(ctx, parse, g, common.calls_named('_parse_payloads')):
        if x.args:
            a = inline(res, parse, x.args[0], 3)
            if any(isinstance(y, ast.Call) and callee_name(y) == 'decrypt' for y in ast.walk(a)) or any(
                    isinstance(y, ast.Name) and y.id == 'decrypted_data' for y in ast.walk(x.args[0])):
                inner.append((n, x))
    ctx.check(len(inner) >= 1, 'U1', 'the decrypted body is parsed by _parse_payloads', key=('U1', 'no-inner-parse'))
    for n, x in dec + inner:
        ctx.check(common.dominated_by_edge(g, n, mac, passing), 'U1',
                  '`%s` runs only after the checksum comparison passed' % src(x)[:60],
                  key=('U1', 'not-dominated', callee_name(x)), site=ctx.site(parse, x))
    # assignments of the decrypted list
    for n in g.nodes:
        if n.kind == 'stmt' and isinstance(n.ast, ast.Assign) and any(
                isinstance(t, ast.Attribute) and t.attr == 'encrypted_payloads' for t in n.ast.targets):
            ctx.check(common.dominated_by_edge(g, n, mac, passing), 'U1',
                      'encrypted_payloads is filled only after the checksum comparison passed',
                      key=('U1', 'encrypted-payloads-unverified'), site=ctx.site(parse, n.ast))

    # the comparison of U1 is over the whole ICV of the negotiated transform: its length comes from the Integrity table
    from .c07 import icv_table
    icv_table(ctx, 'U1')

    # ---------------------------------------------------------------- U2 part 1: post-condition of parse
    pm = ctx.func('ikesa.IkeSa.process_message')
    g5 = esc.add_exception_edges(pm)
    pcalls = [(n, x) for n, x in common.nodes_calling(ctx, pm, g5, lambda c, r: any(
        t.qual == 'message.Message.parse' for t in r.targets))]
    ctx.require(len(pcalls) == 1 and isinstance(pcalls[0][0].ast, ast.Assign)
                and isinstance(pcalls[0][0].ast.targets[0], ast.Name),
                'anchor vanished: `message = Message.parse(...)` in IkeSa.process_message')
    pnode, pcall = pcalls[0]
    msg = pcall and pnode.ast.targets[0].id
    kw = kwargs_of(pcall, target=parse)
    ctx.check('crypto' in kw and src(kw['crypto']) == 'self.peer_crypto', 'U2',
              'received datagrams are parsed (and verified) under the peer\'s keys', key=('U2', 'parse-keys'),
              site=ctx.site(pm, pcall))
    ho = kw.get('header_only')
    ctx.check(ho is None or (isinstance(ho, ast.Constant) and ho.value is False), 'U2',
              'process_message parses the full message', key=('U2', 'header-only'), site=ctx.site(pm, pcall))
    ckey = src(kw['crypto']) if 'crypto' in kw else 'self.peer_crypto'

    # candidate indicator attributes tested in process_message
    cands = {}
    for c in g5.nodes:
        if c.kind == 'cond':
            fe = flag_edge(c, msg)
            if fe is not None:
                cands.setdefault(fe[0], []).append((c, fe[1]))
    # the parsed message inside Message.parse and how the constructor seeds its attributes - by value terms: the object returned is the
    # Message(...) constructed there, whatever locals (or helpers, inlined) it passes through
    from ..sval import strip_ids as _sid, NONE as _NONE, is_const as _is_const, cval as _cval
    from .. import tq as _tq2
    PV = ctx.sval(parse)
    ctor = PV.calls_to(callee='new message.Message')
    ctx.require(len(ctor) == 1, 'anchor vanished: Message(...) construction in Message.parse')
    M = _sid(ctor[0].term)
    minit = ctx.func('message.Message.__init__')

    def seeded(attr):
        """term the constructor stores into self.<attr>, in terms of parse's values"""
        for n in walk_no_nested(minit.node):
            if isinstance(n, ast.Assign) and any(src(t) == 'self.' + attr for t in n.targets) \
                    and isinstance(n.value, ast.Name) and n.value.id in ctor[0].args:
                return _sid(ctor[0].args[n.value.id])
        return None

    def has_mac(t):
        return bool(_tq2.find(t, lambda x: x[0] == 'call' and isinstance(x[1], str) and x[1].endswith('Integrity.compute')))
    fails = [(a_, _sid(tuple(pc_))[:-1]) for pc_, t_, _ in PV.raises for a_ in _sid(tuple(pc_))[-1:] if has_mac(a_[0])]
    ctx.require(len(fails) >= 1, 'anchor vanished: the raise on a checksum mismatch in Message.parse (value terms)')
    (mac_atom, fail_pol), mac_reached = fails[0]
    keyless = _sid(PV.expr('crypto is None'))
    hdr_only = ('param', parse.call_params()[1]) if len(parse.call_params()) > 1 else None
    from ..sval import pc_term as _pc_term, norm_pc as _norm_pc, mk_bool as _mk_bool, mk_not as _mk_not
    mac_pass = mac_atom if not fail_pol else _mk_not(mac_atom)
    npaths = 0
    good_flags = {}
    for attr in sorted(cands):
        s0 = seeded(attr)

        def kind(v):
            if v is None:
                return 'other'
            if v == _NONE or (_is_const(v) and _cval(v) is False):
                return 'clear'
            return 'keys' if v == ('param', 'crypto') else 'other'
        sts = [(kind(_sid(v_)), _sid(_pc_term(_norm_pc(tuple(spc))))) for tg, v_, spc, _st, seq in PV.stores if _sid(tg) == ('attr', M, attr)]
        verdict, why = True, None
        if any(k == 'other' for k, _ in sts) or kind(s0) == 'other':
            verdict, why = False, '<message>.%s is given a value that is neither the keys nor empty' % attr
        elif kind(s0) == 'keys' and all(k == 'clear' for k, _ in sts):
            cleared = _mk_bool('or', tuple(c for _, c in sts)) if len(sts) > 1 else sts[0][1] if sts else ('const', 'bool', False)
            left = lambda R: _mk_bool('and', (R, _mk_not(cleared)))                                       # noqa: E731
        elif kind(s0) == 'clear' and all(k == 'keys' for k, _ in sts) and sts:
            setc = _mk_bool('or', tuple(c for _, c in sts)) if len(sts) > 1 else sts[0][1]
            left = lambda R: _mk_bool('and', (R, setc))                                                   # noqa: E731
        else:
            verdict, why = False, '<message>.%s is both set and cleared on the way: not decided' % attr
        if verdict:
            for pc_, t_, _ in PV.returns:
                if _sid(t_) != M:
                    continue
                npaths += 1
                R = _sid(_pc_term(_norm_pc(tuple(pc_))))
                if hdr_only is not None:
                    R = _mk_bool('and', (R, _mk_not(hdr_only)))
                K = left(R)
                # the keys are left on the message only if the checksum comparison passed (or there are no keys at all)
                if _tq2.entails(((K, True),), _mk_bool('or', (mac_pass, keyless))) is not True:
                    verdict, why = False, 'a path returns without passing the checksum comparison and leaves the keys in <message>.%s' % attr
                # ... and they are left whenever it passed
                elif _tq2.entails(((R, True), (mac_pass, True)) + tuple(mac_reached), K) is not True:
                    verdict, why = False, 'the verified path does not leave the keys in <message>.%s' % attr
        good_flags[attr] = (verdict, why)
    ctx.stats['U2 normal-return paths of Message.parse examined'] = npaths
    valid = [a for a, (v, _) in good_flags.items() if v]
    ctx.check(bool(valid), 'U2', 'Message.parse leaves an indicator on the message that is set only when the checksum '
              'comparison passed (candidates tested in process_message: %s)' % (sorted(cands) or 'none'),
              key=('U2', 'no-protected-indicator'), site=ctx.site(parse, parse.node),
              detail={a: w for a, (v, w) in good_flags.items()})

    # ---------------------------------------------------------------- U2 part 2: process_message
    # by value terms and path conditions: every store to the IKE_SA and every call that can change it happens under a condition that
    # implies "there are no keys yet" or "the parsed message carries the indicator" - except the one hand-over to the window code
    # for a retransmitted IKE_SA_INIT request.  Locals that hold parts of these tests, guard clauses and nesting give the same atoms.
    from ..sval import const as _const, strip_ids as _sid, NONE as _NONE2, mk_bool as _mkb, mk_not as _mkn
    from .. import tq as _tq
    mut = self_mutators(ctx)
    PMV = ctx.sval(pm)
    parsed = PMV.calls_to(qual='message.Message.parse')
    ctx.require(len(parsed) == 1, 'anchor vanished: the Message.parse call of process_message (value terms)')
    m_t = _sid(parsed[0].term)
    me_ = ('param', 'self')
    keys_t = _sid(parsed[0].args.get('crypto', ('attr', me_, 'peer_crypto')))
    alts = [_sid(PMV.mk_cmp('is', keys_t, _NONE2)), _mkn(keys_t)]
    for a_ in valid:
        ind = ('attr', m_t, a_)
        alts += [_mkn(_sid(PMV.mk_cmp('is', ind, _NONE2))), ind]
    protected_goal = _mkb('or', tuple(alts))
    exempt = _mkb('and', (_sid(PMV.mk_cmp('==', ('attr', m_t, 'exchange_type'), PMV.expr('Message.Exchange.IKE_SA_INIT'))),
                          ('attr', m_t, 'is_request'),
                          _sid(PMV.mk_cmp('==', ('attr', m_t, 'message_id'), PMV.expr('self.peer_msg_id - 1')))))
    # (the same exemption with the arithmetic done: Message ID 0 is the previous ID exactly when peer_msg_id is 1)
    exempt0 = _mkb('and', (_sid(PMV.mk_cmp('==', ('attr', m_t, 'exchange_type'), PMV.expr('Message.Exchange.IKE_SA_INIT'))),
                           ('attr', m_t, 'is_request'),
                           _sid(PMV.mk_cmp('==', ('attr', m_t, 'message_id'), _const(0))),
                           _sid(PMV.mk_cmp('==', PMV.expr('self.peer_msg_id'), _const(1)))))
    effects = []
    for tg, v_, pc_, st_, _seq in PMV.stores:
        tg = _sid(tg)
        if tg[0] == 'attr' and tg[1] == me_:
            effects.append((_sid(tuple(pc_)), 'store `self.%s`' % tg[2], st_, None))
    for c in PMV.calls:
        if any(q in mut for q in c.quals):
            effects.append((_sid(tuple(c.pc)), 'call `%s`' % src(c.node)[:50], c.node, c))
    ctx.floor('U2 effect sites in process_message', sum(1 for e in effects if e[3] is not None and e[3].name in (
        '_process_request', '_process_response')), 2)
    nbad = 0
    for pc_, what, node, c in effects:
        if _tq.entails(pc_, protected_goal) is True:
            continue
        granted = c is not None and c.name == '_process_request' and list(c.args.values())[:1] == [parsed[0].term] \
            and (_tq.entails(pc_, exempt) is True or _tq.entails(pc_, exempt0) is True)
        if granted:
            ctx.ok('U2', 'the only thing an unprotected message can still obtain is the window code for a retransmitted '
                   'IKE_SA_INIT request (`%s` under is_request, previous Message ID, IKE_SA_INIT)' % what, ctx.site(pm, node))
        else:
            nbad += 1
            ctx.bad('U2', ('U2', 'unauthenticated-effect', what),
                    'once keys exist, an unprotected (cleartext or unverified) message can reach %s in '
                    'IkeSa.process_message without having passed the checksum comparison' % what,
                    ctx.site(pm, node), {'condition': [('' if v else 'not ') + _tq.text(a, 120) for a, v in pc_]})
    if not nbad:
        ctx.ok('U2', 'no store to the IKE_SA and no dispatch happens in process_message for a message that did not pass the checksum '
               'comparison while keys exist (%d effect sites, each entailed by its path condition)' % len(effects), ctx.site(pm, pm.node))
    # ... and what the window code re-sends for it is the IKE_SA_INIT response only while the IKE_SA_INIT request (Message ID 0) is
    # the last request that was answered: the exemption must insist on Message ID 0, not merely on "the previous ID" - otherwise
    # a cleartext 'IKE_SA_INIT request' carrying the ID of a later exchange is answered with that exchange's stored response
    for c in PMV.calls_to(qual='ikesa.IkeSa._process_request'):
        unprot = [a for a in c.pc if a[1] and a[0][0] == 'cmp' and a[0][1] == 'is' and ('const', 'NoneType', None) in a[0][2:]
                  and any(x[0] == 'attr' and x[2] == 'crypto' and x[1][0] != 'param' for x in a[0][2:])]
        if not unprot:
            continue
        m_t = list(c.args.values())[0] if c.args else None
        goal = PMV.mk_cmp('==', ('attr', m_t, 'message_id'), _const(0)) if m_t is not None else None
        ctx.check(goal is not None and _tq.entails(c.pc, goal) is True, 'U2', 'the cleartext exemption is limited to Message ID 0 (the '
                  'IKE_SA_INIT exchange): the stored response it obtains is the IKE_SA_INIT response', key=('U2', 'exemption-id-0'),
                  site=ctx.site(pm, c.node), detail={'condition': [('' if v else 'not ') + _tq.text(a, 120) for a, v in c.pc]})
    # the previous-ID branch of the window code has no effect (C08/M1, re-derived here)
    preq = ctx.func('ikesa.IkeSa._process_request')
    PRQ = ctx.sval(preq)
    m0 = ('param', preq.call_params()[0])
    mid = ('attr', m0, 'message_id')
    expected = _sid(PRQ.mk_cmp('==', mid, PRQ.expr('self.peer_msg_id')))
    previous = _sid(PRQ.mk_cmp('==', mid, PRQ.expr('self.peer_msg_id - 1')))
    stored = ('attr', ('param', 'self'), 'last_sent_response_data')
    prev_rets = [pc for pc, t, _ in PRQ.returns if _sid(t) == stored]
    ctx.check(bool(prev_rets) and all(_tq.entails(pc, previous) is True for pc in prev_rets), 'U2',
              '_process_request recognises the previous Message ID, and answers it - and nothing else - with the stored response',
              key=('U2', 'window-prev'), site=ctx.site(preq, preq.node))
    # whatever has an effect (a store on the IKE_SA, a handler, a generator, the counters) runs for the expected Message ID only: the
    # previous-ID branch - which the cleartext exemption reaches - only returns the stored response
    bad_eff = []
    for tg, v_, pc_, st_, _seq in PRQ.stores:
        tg = _sid(tg)
        if tg[0] == 'attr' and tg[1] == ('param', 'self') and _tq.entails(pc_, expected) is not True:
            bad_eff.append('self.%s = ..' % tg[2])
    for c in PRQ.calls:
        if (any(q in mut for q in c.quals) or (isinstance(c.callee, tuple) and c.callee[0] == 'dyn')) and _tq.entails(c.pc, expected) is not True:
            bad_eff.append(_tq.text(c.term, 60))
    ctx.check(not bad_eff, 'U2', 'the previous-ID branch only returns the stored response (every effect of _process_request is under "the '
              'expected Message ID")', key=('U2', 'window-prev-effect'), site=ctx.site(preq, preq.node), detail={'effects outside': bad_eff[:6]})

    # a datagram that fails verification (it raises out of process_message) must not make the controller drop an IKE_SA that
    # already existed: a table entry is removed only when its IKE_SA is observed DELETED, or to undo this very event's registration
    common.deleted_observed(ctx, esc, 'U2')

    # the controller has nothing to say to a datagram itself: whatever dispatch_message returns for it is what the IKE_SA's
    # process_message - which verifies before it does anything (above) - returned for this very datagram, or nothing.  A reply
    # produced on any other path (a cache keyed by the clear header, a canned answer) would be elicited without verification.
    from ..sval import NONE, strip_ids
    from .. import tq
    dm = ctx.func('ikesacontroller.IkeSaController.dispatch_message')
    DM = ctx.sval(dm)
    pmc = DM.calls_to(qual='ikesa.IkeSa.process_message')
    ctx.floor('U2 process_message call in dispatch_message', len(pmc), 1, rule='U2')

    def leaves(t):
        if t[0] == 'cond':
            return leaves(t[2]) | leaves(t[3])
        return {strip_ids(t)}
    allowed = {strip_ids(c.term) for c in pmc} | {NONE}
    rets = [(pc, t) for pc, t, _ in DM.returns]
    odd = [tq.text(x, 160) for _, t in rets for x in leaves(t) if x not in allowed]
    ctx.check(bool(rets) and not odd, 'U2', 'dispatch_message returns only what process_message returned for this datagram, or nothing',
              key=('U2', 'controller-replies'), site=ctx.site(dm, dm.node), detail={'other replies': odd})

    # ---------------------------------------------------------------- U3
    lookups_checked = check_lookups(ctx, esc)
    ctx.floor('U3 payload lookups classified', lookups_checked, 35)

    # ---------------------------------------------------------------- U4
    bad = 0
    for exc, origins in sorted(esc.escapes(parse).items()):
        if not esc.hier.is_sub(exc, 'IkeSaError'):
            for origin, chain in origins.items():
                bad += 1
                ctx.bad('U4', ('U4', exc, origin), 'Message.parse can raise %s (not a protocol error): %s' % (exc, origin),
                        chain[-1].split(' ')[0], {'witness': chain})
    if not bad:
        ctx.ok('U4', 'a datagram that fails verification leaves Message.parse only as a protocol error',
               ctx.site(parse, parse.node))


def check_lookups(ctx, esc):
    prog, res = ctx.prog, ctx.res
    ikesa = prog.cls('ikesa.IkeSa')
    req = common.handler_table(ctx, '_process_request')
    rsp = common.handler_table(ctx, '_process_response')
    ctxs = {}
    todo = []
    for table in (req, rsp):
        for ex, h in table.items():
            ctxs.setdefault(h.qual, set()).add(ex)
            todo.append(h)
    callers = {}    # callee qual -> [(caller fi, call)]
    while todo:
        f = todo.pop()
        for x in walk_no_nested(f.node):
            if not isinstance(x, ast.Call):
                continue
            r = res.resolve_call(x, f, count=False)
            for t in r.targets:
                if t.cls is not None and t.cls.qual == 'ikesa.IkeSa' and t.name not in (
                        'log_msg', 'log_info', 'log_debug', 'log_warning', 'log_error', 'log_message'):
                    callers.setdefault(t.qual, [])
                    if (f, x) not in callers[t.qual]:
                        callers[t.qual].append((f, x))
                    before = len(ctxs.setdefault(t.qual, set()))
                    ctxs[t.qual] |= ctxs[f.qual]
                    if len(ctxs[t.qual]) != before:
                        todo.append(t)
    ctx.stats['U3 exchange contexts'] = {q.split('.')[-1]: sorted(v) for q, v in ctxs.items()}

    def const_enc(e):
        if e is None:
            return False
        if isinstance(e, ast.Constant) and isinstance(e.value, bool):
            return e.value
        return None

    def need(enc, C):
        """is the constant `enc` right for exchange contexts C?"""
        return (INIT not in C) if enc else (C <= {INIT})

    from ..sval import NONE, strip_ids
    from .. import tq
    n = 0
    for q in sorted(ctxs):
        f = prog.functions[q]
        C = ctxs[q]
        if not isinstance(f.node, ast.FunctionDef):
            continue
        S = ctx.sval(f)
        for c in S.calls:
            if c.name not in LOOKUPS or not any(t.startswith('message.Message.') for t in c.quals):
                continue
            recv = c.recv if c.recv is not None else NONE
            enc = c.args.get('encrypted')
            x = c.node
            n += 1
            site = ctx.site(f, x)
            what = '%s in %s' % (src(x)[:70], f.name)

            def const_t(t):
                if t is None:
                    return False
                if t[0] == 'const' and isinstance(t[2], bool):
                    return t[2]
                return None
            # --- retained IKE_SA_INIT messages
            if tq.is_call(recv, 'message.Message.parse') and 'ike_sa_init_' in tq.text(tq.args(recv).get('data', NONE)):
                ctx.check(const_t(enc) is False, 'U3', 'retained IKE_SA_INIT message is read from its clear payload list: '
                          + what, key=('U3', f.qual, 'retained', src(x)), site=site)
                continue
            is_param = recv[0] == 'param' and recv[1] in f.call_params()
            own = recv == ('attr', ('param', 'self'), 'request')
            if not (is_param or own):
                raise AnalysisError('U3: payload lookup on an unclassified receiver `%s` in %s' % (tq.text(recv, 80), f.qual))
            label = 'own outstanding request' if own else 'received message'
            ce = const_t(enc)
            if ce is not None:
                ok = need(ce, C)
                if not ok and ce is False and cookie_exception(ctx, esc, f, x):
                    ctx.ok('U3', 'frozen exception: COOKIE lookup runs only when cookie_secret is set, which only the '
                           'controller does for IKE_SA_INIT responders: ' + what, site)
                    continue
                ctx.check(ok, 'U3', '%s, reached for %s, is read from the %s list: %s' % (
                    label, sorted(C), 'encrypted' if ce else 'clear', what),
                    key=('U3', f.qual, 'const', src(x)), site=site)
                continue
            if enc[0] == 'param' and enc[1] in f.call_params():
                sites = callers.get(f.qual, [])
                ctx.require(bool(sites), 'U3: %s takes `encrypted` but has no resolved caller' % f.qual)
                for cf, cx in sites:
                    CS = ctx.sval(cf)
                    recs = [r_ for r_ in CS.calls if r_.node is cx]
                    ctx.require(len(recs) == 1, 'U3: call %s not evaluated in %s' % (src(cx)[:40], cf.qual))
                    be = recs[0].args.get(enc[1])
                    if be is None and enc[1] in f.defaults():
                        d_ = f.defaults()[enc[1]]
                        be = ('const', type(d_.value).__name__, d_.value) if isinstance(d_, ast.Constant) else None
                    cb = const_t(be) if be is not None else None
                    ctx.require(cb is not None, 'U3: `%s` passed on as a non-constant at %s' % (enc[1], ctx.site(cf, cx)))
                    ctx.check(need(cb, ctxs[cf.qual]), 'U3', '%s binds %s=%s for exchange(s) %s: %s' % (
                        cf.name, enc[1], cb, sorted(ctxs[cf.qual]), what),
                        key=('U3', f.qual, 'param', cf.qual, src(x)), site=ctx.site(cf, cx))
                continue
            # computed: encrypted exactly when the exchange of the message being read is later than IKE_SA_INIT
            ex = ('attr', recv, 'exchange_type')
            init = ('global', 'message.Message.Exchange.IKE_SA_INIT')
            se = strip_ids(enc)
            ok = se in (strip_ids(S.mk_cmp('<', init, ex)), ('not', strip_ids(S.mk_cmp('==', ex, init))))
            ctx.check(ok, 'U3', 'the list is chosen by the exchange type of the message being read: %s' % what,
                      key=('U3', f.qual, 'computed', src(x)), site=site, detail={'encrypted': tq.text(enc)})
    return n


def cookie_exception(ctx, esc, f, call):
    g = esc.add_exception_edges(f)
    if 'COOKIE' not in src(call):
        return False
    nodes = common.node_of(g, call)
    conds = [c for c in g.nodes if c.kind == 'cond' and src(c.ast) == 'self.cookie_secret is not None']
    if not nodes or not any(common.dominated_by_edge(g, nodes[0], c, 'T') for c in conds):
        return False
    # who sets cookie_secret: nobody inside ikesa.py except the constructor parameter, and no IkeSa(...) built
    # inside ikesa.py passes one
    m = ctx.prog.module('ikesa')
    for fi in ctx.prog.all_functions():
        if fi.module is not m:
            continue
        for n in walk_no_nested(fi.node):
            if isinstance(n, ast.Assign) and any(isinstance(t, ast.Attribute) and t.attr == 'cookie_secret' for t in n.targets) \
                    and fi.name != '__init__':
                return False
            if isinstance(n, ast.Call):
                r = ctx.res.resolve_call(n, fi, count=False)
                if r.kind == 'ctor' and r.cls.qual == 'ikesa.IkeSa':
                    b = kwargs_of(n, target=ctx.prog.func('ikesa.IkeSa.__init__'))
                    if 'cookie_secret' in b:
                        return False
    return True


MANIFEST = {
    'level': 'All-paths static decision over the composition Message.parse o IkeSa.process_message: the MAC comparison '
             'dominates decryption and inner parsing and raises on mismatch; on every normal-return path of the full '
             'parse the "protected" indicator left on the message is set only if the MAC edge was passed; in '
             'process_message, with the no-keys and authenticated edges removed, no store to the IKE_SA and no dispatch is '
             'reachable except the window code for a retransmitted IKE_SA_INIT request, whose previous-ID branch only '
             're-sends the stored response; every payload lookup on a received message outside IKE_SA_INIT reads the '
             'encrypted list (constants and parameter bindings per exchange context).',
    'note': 'Trusted: HMAC unforgeability, resolver typing, effect catalogue. Declined: replay/reflection histories '
            '(window rules of C08 cover the per-message part).',
    'technique': 'dominance + path enumeration with blocked-edge reachability + call-context classification',
    'design_ref': 'DESIGN.md 3/C03',
}
MANIFEST['note'] += (' Also decided here (necessary conditions shared between properties or added after the independent '
                     'change rounds, DESIGN.md 8.7): ICV table (from C07), the controller answers only with what process_message returned, entries removed only when observed DELETED. Rounds 7-8: cipher key cut to the cipher\'s key size decided on value terms (who-constructs Crypto).')
