"""C01 - Peers derive the same keys and install mirror-image IPsec SAs  (claimed clause: role orientation).

Both peers run the same functions with opposite `is_initiator` and with locally / remotely sourced
operands exchanged.  Identical keyrings and mirror-image kernel SAs therefore require:

O1  SK_* split order and the two Crypto(...) objects: the *i* keys make the initiator-direction Crypto,
    the *r* keys the responder-direction one, each key in the like-named parameter.
O2  my_crypto / peer_crypto are complementary selections on is_initiator.
O3  at the two derivation sites every operand with an i/r subscript comes from the source that belongs to
    that subscript for that role (responder: Ni, SPIi from the peer / Nr, SPIr local; initiator: the
    converse); both rekey callers pass the old SK_d, both IKE_SA_INIT callers pass none; the peer SPI is
    learnt before keys are derived.
O4  CHILD keyring positions (KEYMAT split, shared with C04/K4).
O6  ChildSa construction per role: outbound SPI from the peer's proposal, inbound SPI fresh and the one
    announced to the peer (announced *after* the peer's value was read on the responder); tsi is always
    the local selector.
O7  Xfrm.create_child_sa: the inbound kernel SA is the exact argument-wise mirror of the outbound one under
    the involution {src<->dst selector/port/address, outbound<->inbound SPI, ei<->er, ai<->ar}; the outbound
    one pairs outbound SPI with (my_addr -> peer_addr), the local selector as source and the sender's
    direction keys; the is_initiator switch gives the initiator the *i* keys for its outbound SA.
O8  Xfrm.create_sa puts each parameter into the like-oriented kernel field (shared with C14/L3).
O9  kernel algorithm names per transform.
"""
import ast

from ..model import namedtuple_fields, src, walk_no_nested
from ..terms import callee_name, calls_in, compare_parts, inline, kwargs_of, single_def
from . import common
from .c04 import RFC_ORDER, fmt_fields

EXPLANATION = ('static analysis: provenance and orientation of every operand with a role subscript (i/r, my/peer, in/out, '
               'src/dst) at the key-derivation sites, the ChildSa construction sites and the two kernel SA installations, the '
               'latter checked as an argument-wise involution; values are not compared, orientation is')
ASSUMPTIONS = [
    'declined: equality of the derived bytes on two hosts (HMAC/DH are trusted); COOKIE / INVALID_KE retries are covered '
    'structurally by C13/C18; what the kernel does with the request (C14 decides the request bytes)',
]

IKESA = 'ikesa.IkeSa'
SIGMA = {'src_selector': 'dst_selector', 'dst_selector': 'src_selector', 'src_port': 'dst_port', 'dst_port': 'src_port',
         'child_sa.outbound_spi': 'child_sa.inbound_spi', 'child_sa.inbound_spi': 'child_sa.outbound_spi',
         'ike_sa.my_addr': 'ike_sa.peer_addr', 'ike_sa.peer_addr': 'ike_sa.my_addr',
         'sk_ei': 'sk_er', 'sk_er': 'sk_ei', 'sk_ai': 'sk_ar', 'sk_ar': 'sk_ai'}


def run(ctx):
    prog, res = ctx.prog, ctx.res
    esc = ctx.escape('engine', kills=common.engine_kills(ctx))

    # ---------------------------------------------------------------- O1 / O2
    gk = ctx.func(IKESA + '.generate_ike_sa_key_material')
    ups = [n for n in walk_no_nested(gk.node) if isinstance(n, ast.Assign) and isinstance(n.value, ast.Call)
           and callee_name(n.value) == 'unpack']
    ctx.check(len(ups) == 1 and isinstance(ups[0].targets[0], ast.Tuple) and [src(t) for t in ups[0].targets[0].elts] == RFC_ORDER,
              'O1', 'the SK_* material is split in RFC order SK_d|SK_ai|SK_ar|SK_ei|SK_er|SK_pi|SK_pr', key=('O1', 'split-order'),
              site=ctx.site(gk, gk.node))
    ctx.check(namedtuple_fields(prog, 'ikesa', 'Keyring') == RFC_ORDER, 'O1', 'Keyring fields are declared in that order',
              key=('O1', 'keyring-fields'))
    kr = [n for n in walk_no_nested(gk.node) if isinstance(n, ast.Assign) and isinstance(n.value, ast.Call)
          and callee_name(n.value) == 'Keyring']
    ctx.check(len(kr) == 1 and [src(a) for a in kr[0].value.args] == RFC_ORDER, 'O1', 'and filled positionally from the like-named '
              'results', key=('O1', 'keyring-fill'), site=ctx.site(gk, gk.node))
    krv = src(kr[0].targets[0]) if len(kr) == 1 else 'ike_sa_keyring'
    cinit = ctx.func('crypto.Crypto.__init__')
    stored = {}
    for n in walk_no_nested(cinit.node):
        if isinstance(n, ast.Assign) and isinstance(n.targets[0], ast.Attribute) and src(n.targets[0].value) == 'self':
            stored[n.targets[0].attr] = src(n.value)
    ctx.check(stored == {p: p for p in cinit.call_params()} and set(stored) == {'cipher', 'sk_e', 'integrity', 'sk_a', 'prf', 'sk_p'},
              'O1', 'Crypto keeps each constructor argument under the like-named attribute', key=('O1', 'crypto-fields'),
              site=ctx.site(cinit, cinit.node))
    cr = {}
    for n in walk_no_nested(gk.node):
        if isinstance(n, ast.Assign) and isinstance(n.value, ast.Call) and callee_name(n.value) == 'Crypto':
            cr[src(n.targets[0])] = kwargs_of(n.value, target=cinit)
    dirs = {}
    for name, b in cr.items():
        keys = {p: src(b.get(p)) for p in ('sk_e', 'sk_a', 'sk_p')}
        for d in ('i', 'r'):
            if keys == {'sk_e': '%s.sk_e%s' % (krv, d), 'sk_a': '%s.sk_a%s' % (krv, d), 'sk_p': '%s.sk_p%s' % (krv, d)} or \
                    keys == {'sk_e': 'sk_e' + d, 'sk_a': 'sk_a' + d, 'sk_p': 'sk_p' + d}:
                dirs[d] = name
    ctx.check(len(cr) == 2 and set(dirs) == {'i', 'r'}, 'O1', 'two Crypto objects: one from (SK_ei, SK_ai, SK_pi), one from '
              '(SK_er, SK_ar, SK_pr), each key in the like-named parameter', key=('O1', 'crypto-objects'), site=ctx.site(gk, gk.node),
              detail={k: {p: src(v) for p, v in b.items()} for k, b in cr.items()})
    if set(dirs) == {'i', 'r'}:
        for attr, when_init, when_resp in (('my_crypto', dirs['i'], dirs['r']), ('peer_crypto', dirs['r'], dirs['i'])):
            asg = [n for n in walk_no_nested(gk.node) if isinstance(n, ast.Assign) and src(n.targets[0]) == 'self.' + attr]
            ok = len(asg) == 1 and isinstance(asg[0].value, ast.IfExp)
            if ok:
                e = asg[0].value
                t = src(e.test)
                ok = (t == 'self.is_initiator' and src(e.body) == when_init and src(e.orelse) == when_resp) or \
                     (t == 'not self.is_initiator' and src(e.body) == when_resp and src(e.orelse) == when_init)
            ctx.check(ok, 'O2', '%s is the %s-direction Crypto for the initiator and the other one for the responder' % (
                attr, 'initiator' if attr == 'my_crypto' else 'responder'), key=('O2', attr), site=ctx.site(gk, gk.node))
        others = [f.qual for f in prog.all_functions() if f.qual != gk.qual and f.name != '__init__' for n in walk_no_nested(f.node)
                  if isinstance(n, ast.Assign) and any(isinstance(t, ast.Attribute) and t.attr in ('my_crypto', 'peer_crypto')
                                                       for t in n.targets)]
        ctx.check(not others, 'O2', 'my_crypto / peer_crypto are assigned nowhere else', key=('O2', 'other-writers', ','.join(others)))

    # ---------------------------------------------------------------- O3
    sites = {}
    for fi in prog.cls(IKESA).methods.values():
        for c in calls_in(fi.node):
            if callee_name(c) == 'generate_ike_sa_key_material':
                sites[fi.qual] = (fi, c)
    ctx.check(set(sites) == {IKESA + '._process_ike_sa_negotiation_request', IKESA + '.process_ike_sa_negotiation_response'}, 'O3',
              'IKE keys are derived in the responder and the initiator negotiation function', key=('O3', 'sites'),
              detail={'found': sorted(sites)})
    for q, (fi, c) in sites.items():
        b = kwargs_of(c, target=gk)
        msg = fi.call_params()[0]
        responder = q.endswith('_process_ike_sa_negotiation_request')

        def peer_nonce(e):
            t = src(inline(res, fi, e, 3, frozenset([msg])))
            return t.startswith('%s.get_payload(Payload.Type.NONCE' % msg) and t.endswith('.nonce')

        def fresh_nonce(e):
            return src(inline(res, fi, e, 3)) == 'PayloadNONCE().nonce'
        if responder:
            exp = [('nonce_i', peer_nonce(b.get('nonce_i')), 'Ni is the nonce of the received request'),
                   ('nonce_r', fresh_nonce(b.get('nonce_r')), 'Nr is the freshly drawn nonce put into the response'),
                   ('spi_i', src(b.get('spi_i')) == 'self.peer_spi', 'SPIi is the peer\'s SPI'),
                   ('spi_r', src(b.get('spi_r')) == 'self.my_spi', 'SPIr is our SPI')]
            nr = b.get('nonce_r')
            rets = [r for r in walk_no_nested(fi.node) if isinstance(r, ast.Return)]
            sent = isinstance(nr, ast.Attribute) and all(isinstance(r.value, ast.List) and src(nr.value) in [src(x) for x in r.value.elts]
                                                         for r in rets) and bool(rets)
            exp.append(('nonce_r-sent', sent, 'the nonce used as Nr is the one returned in the response payloads'))
            dh = src(b.get('shared_secret'))
            dv = dh.rsplit('.', 1)[0]
            d = single_def(res, fi, dv)
            cs = [x for x in calls_in(fi.node) if callee_name(x) == 'compute_secret' and src(x.func.value) == dv]
            ok = dh.endswith('.shared_secret') and isinstance(d, ast.Call) and callee_name(d) == 'from_group' and len(cs) == 1 \
                and src(inline(res, fi, cs[0].args[0], 3, frozenset([msg]))).startswith('%s.get_payload(Payload.Type.KE' % msg)
            ke = [x for x in calls_in(fi.node) if callee_name(x) == 'PayloadKE']
            ok = ok and len(ke) == 1 and [src(a) for a in ke[0].args] == [dv + '.group', dv + '.public_key']
            exp.append(('shared_secret', ok, 'g^ir comes from a fresh DH object fed with the peer\'s KE data, whose public value is returned'))
        else:
            callers_ok = True
            exp = [('nonce_i', src(b.get('nonce_i')) == fi.call_params()[1], 'Ni is the nonce handed in by the caller'),
                   ('nonce_r', peer_nonce(b.get('nonce_r')), 'Nr is the nonce of the received response'),
                   ('spi_i', src(b.get('spi_i')) == 'self.my_spi', 'SPIi is our SPI'),
                   ('spi_r', src(b.get('spi_r')) == 'self.peer_spi', 'SPIr is the peer\'s SPI')]
            cs = [x for x in calls_in(fi.node) if callee_name(x) == 'compute_secret']
            ok = src(b.get('shared_secret')) == 'self.dh.shared_secret' and len(cs) == 1 and src(cs[0].func.value) == 'self.dh' \
                and src(inline(res, fi, cs[0].args[0], 3, frozenset([msg]))).startswith('%s.get_payload(Payload.Type.KE' % msg)
            exp.append(('shared_secret', ok, 'g^ir comes from the DH object of our request fed with the peer\'s KE data'))
            # the peer SPI is learnt before the keys are derived
            g = esc.add_exception_edges(fi)
            st = [n for n in g.nodes if n.kind == 'stmt' and isinstance(n.ast, ast.Assign) and src(n.ast.targets[0]) == 'self.peer_spi']
            kn = common.node_of(g, c)
            v = st[0].ast.value if len(st) == 1 else None
            ok = len(st) == 1 and kn and kn[0].id not in g.reach([g.entry], blocked_nodes=st) and isinstance(v, ast.IfExp) \
                and src(v.test) in ('old_sk_d is None',) and src(v.body) == msg + '.spi_r' and src(v.orelse) == 'self.chosen_proposal.spi'
            exp.append(('peer_spi', ok, 'the peer SPI is taken from the response header (from the SA payload on a rekey) before deriving'))
        exp.append(('old_sk_d', src(b.get('old_sk_d')) == 'old_sk_d' and 'old_sk_d' in fi.call_params(), 'the old SK_d is passed through'))
        exp.append(('ike_proposal', src(b.get('ike_proposal')) == 'self.chosen_proposal', 'keys are derived for the chosen proposal'))
        for k, ok, what in exp:
            ctx.check(ok, 'O3', '%s: %s' % (fi.name, what), key=('O3', q, k), site=ctx.site(fi, c),
                      detail={'found': src(b.get(k)) if k in b else None})
        asg = [n for n in walk_no_nested(fi.node) if isinstance(n, ast.Assign) and n.value is c]
        ctx.check(len(asg) == 1 and src(asg[0].targets[0]) == 'self.ike_sa_keyring', 'O3', '%s keeps the derived keyring' % fi.name,
                  key=('O3', q, 'keyring'), site=ctx.site(fi, c))
    # callers: old SK_d and Ni
    callers = [
        (IKESA + '.process_ike_sa_init_request', '_process_ike_sa_negotiation_request', None, False),
        (IKESA + '.process_create_child_sa_request', '_process_ike_sa_negotiation_request', 'self.ike_sa_keyring.sk_d', True),
        (IKESA + '.process_ike_sa_init_response', 'process_ike_sa_negotiation_response', None, False),
        (IKESA + '.process_create_child_sa_response', 'process_ike_sa_negotiation_response', 'self.ike_sa_keyring.sk_d', True)]
    for q, callee, old, rekey in callers:
        fi = ctx.func(q)
        cs = [c for c in calls_in(fi.node) if callee_name(c) == callee]
        ctx.check(len(cs) == 1, 'O3', '%s calls %s once' % (fi.name, callee), key=('O3', q, 'call'), site=ctx.site(fi, fi.node))
        for c in cs:
            b = kwargs_of(c, target=ctx.func(IKESA + '.' + callee))
            ctx.check((src(b.get('old_sk_d')) == old) if old else ('old_sk_d' not in b), 'O3',
                      '%s: %s' % (fi.name, 'the rekey derivation is keyed with the old IKE_SA\'s SK_d' if old else
                                  'the initial derivation has no old SK_d'), key=('O3', q, 'old_sk_d'), site=ctx.site(fi, c))
            recv = src(c.func.value)
            ctx.check(recv == ('self.new_ike_sa' if rekey else 'self'), 'O3', '%s: the keys are derived on %s' % (
                fi.name, 'the successor IKE_SA' if rekey else 'this IKE_SA'), key=('O3', q, 'receiver'), site=ctx.site(fi, c))
            if callee == 'process_ike_sa_negotiation_response':
                t = src(b.get('nonce'))
                ctx.check(t.startswith('self.request.get_payload(Payload.Type.NONCE') and t.endswith('.nonce'), 'O3',
                          '%s: Ni is the nonce of our own outstanding request' % fi.name, key=('O3', q, 'nonce'), site=ctx.site(fi, c))
    # successor construction: roles and peer SPI
    for q, role, spi in ((IKESA + '.process_create_child_sa_request', 'False', 'proposal.spi'),
                         (IKESA + '.generate_rekey_ike_sa_request', 'True', "b''")):
        fi = ctx.func(q)
        cs = [c for c in calls_in(fi.node) if callee_name(c) == 'IkeSa']
        ok = len(cs) == 1
        if ok:
            b = kwargs_of(cs[0], target=ctx.func(IKESA + '.__init__'))
            ok = src(b.get('is_initiator')) == role and src(b.get('peer_spi')) == spi \
                and [src(b.get(k)) for k in ('configuration', 'my_addr', 'peer_addr')] == ['self.configuration', 'self.my_addr', 'self.peer_addr']
        ctx.check(ok, 'O3', '%s: the successor IKE_SA has role is_initiator=%s, peer SPI %s and the same endpoints' % (fi.name, role, spi),
                  key=('O3', q, 'successor'), site=ctx.site(fi, fi.node))
    rk = ctx.func(IKESA + '.process_create_child_sa_request')
    d = single_def(res, rk, 'proposal')
    ctx.check(isinstance(d, ast.AST) and src(inline(res, rk, d, 2, frozenset(['request']))).startswith(
        'request.get_payload(Payload.Type.SA, True).proposals[0]'), 'O3', 'on a rekey the peer\'s new SPI is the SPI of its proposal',
        key=('O3', 'rekey-peer-spi'), site=ctx.site(rk, rk.node))

    # ---------------------------------------------------------------- O4
    gc = ctx.func(IKESA + '.generate_child_sa_key_material')
    ups = [n for n in walk_no_nested(gc.node) if isinstance(n, ast.Assign) and isinstance(n.value, ast.Call)
           and callee_name(n.value) == 'unpack']
    ok = len(ups) == 1 and isinstance(ups[0].targets[0], ast.Tuple) and [src(t) for t in ups[0].targets[0].elts] == [
        'sk_ei', 'sk_ai', 'sk_er', 'sk_ar']
    if ok:
        sizes = fmt_fields(ups[0].value.args[0], {'encr_key_size': 11, 'integ_key_size': 7}, prog, gc)
        ok = sizes == [11, 7, 11, 7]
    ctx.check(ok, 'O4', 'KEYMAT is split as SK_ei|SK_ai|SK_er|SK_ar (initiator-to-responder keys first)', key=('O4', 'split'),
              site=ctx.site(gc, gc.node))
    kr = [c for c in calls_in(gc.node) if callee_name(c) == 'Keyring']
    ctx.check(len(kr) == 1 and [src(a) for a in kr[0].args] == ['None', 'sk_ai', 'sk_ar', 'sk_ei', 'sk_er', 'None', 'None'], 'O4',
              'and stored at the like-named Keyring positions', key=('O4', 'keyring'), site=ctx.site(gc, gc.node))

    # ---------------------------------------------------------------- O6
    rq = ctx.func(IKESA + '._process_create_child_sa_negotiation_req')
    gq = esc.add_exception_edges(rq)
    cs = [(n, x) for n, x in common.nodes_calling(ctx, rq, gq, common.calls_named('ChildSa'))]
    ctx.check(len(cs) == 1, 'O6', 'the responder builds one ChildSa', key=('O6', 'responder-childsa'), site=ctx.site(rq, rq.node))
    for n, x in cs:
        kw = kwargs_of(x, names=[])
        prop = src(kw.get('proposal'))
        ctx.check(src(kw.get('outbound_spi')) == prop + '.spi' and src(kw.get('inbound_spi')) == 'os.urandom(4)', 'O6',
                  'responder: outbound SPI is the SPI of the peer\'s (chosen) proposal, inbound SPI is fresh', key=('O6', 'responder-spis'),
                  site=ctx.site(rq, x))
        csv = src(n.ast.targets[0]) if isinstance(n.ast, ast.Assign) else None
        lk = [m for m in walk_no_nested(rq.node) if isinstance(m, ast.Assign) and isinstance(m.value, ast.Call)
              and callee_name(m.value) == '_get_ipsec_configuration' and isinstance(m.targets[0], ast.Tuple)
              and len(m.targets[0].elts) == 3]
        ok = len(lk) == 1 and src(kw.get('tsi')) == src(lk[0].targets[0].elts[1]) and src(kw.get('tsr')) == src(lk[0].targets[0].elts[2])
        gi = ctx.func(IKESA + '._get_ipsec_configuration')
        rets = [r for r in walk_no_nested(gi.node) if isinstance(r, ast.Return)]
        ok = ok and bool(rets) and all(isinstance(r.value, ast.Tuple) and len(r.value.elts) == 3 and (
            src(r.value.elts[1]) in ('tsr', 'ipsec_conf.my_ts') and src(r.value.elts[2]) in ('tsi', 'ipsec_conf.peer_ts')) for r in rets)
        ctx.check(ok, 'O6', 'responder: tsi of the ChildSa is the local-side selector (requested TSr / policy my_ts), tsr the peer-side one',
                  key=('O6', 'responder-ts'), site=ctx.site(rq, x))
        ow = [m for m in gq.nodes if m.kind == 'stmt' and isinstance(m.ast, ast.Assign) and src(m.ast.targets[0]) == prop + '.spi']
        ok = len(ow) == 1 and csv is not None and src(ow[0].ast.value) == csv + '.inbound_spi' \
            and ow[0].id in gq.reach([n]) and n.id not in gq.reach([ow[0]])
        ctx.check(ok, 'O6', 'responder: the proposal\'s SPI is overwritten with our inbound SPI only after the peer\'s value was read',
                  key=('O6', 'responder-overwrite-order'), site=ctx.site(rq, x))
        sa = [y for y in calls_in(rq.node) if callee_name(y) == 'PayloadSA']
        ctx.check(len(sa) == 1 and src(sa[0].args[0]) == '[%s]' % prop and ow and
                  all(common.node_of(gq, sa[0])[0].id in gq.reach([o]) for o in ow), 'O6',
                  'responder: the SA payload of the response carries that proposal (with our inbound SPI)', key=('O6', 'responder-announce'),
                  site=ctx.site(rq, rq.node))
        cc = [y for y in calls_in(rq.node) if callee_name(y) == 'create_child_sa']
        ctx.check(len(cc) == 1 and [src(a) for a in cc[0].args[:3]] == ['self', csv, 'child_sa_keyring'] and
                  any(k.arg == 'is_initiator' and src(k.value) == 'False' for k in cc[0].keywords), 'O6',
                  'responder: installs that ChildSa with the derived keyring as is_initiator=False', key=('O6', 'responder-install'),
                  site=ctx.site(rq, rq.node))
        kd = single_def(res, rq, 'child_sa_keyring')
        ctx.check(isinstance(kd, ast.Call) and callee_name(kd) == 'generate_child_sa_key_material' and any(
            k.arg == 'child_proposal' and src(k.value) == prop for k in kd.keywords), 'O6',
            'responder: the keyring is derived for the chosen proposal', key=('O6', 'responder-keyring'), site=ctx.site(rq, rq.node))
    rs = ctx.func(IKESA + '._process_create_child_sa_negotiation_res')
    rep = [c for c in calls_in(rs.node) if callee_name(c) == '_replace']
    ctx.check(len(rep) == 1, 'O6', 'the initiator completes its ChildSa from the response', key=('O6', 'initiator-replace'),
              site=ctx.site(rs, rs.node))
    for x in rep:
        kw = kwargs_of(x, names=[])
        prop = src(kw.get('proposal'))
        ctx.check(src(kw.get('outbound_spi')) == prop + '.spi' and 'inbound_spi' not in kw and src(x.func.value) == 'self.creating_child_sa',
                  'O6', 'initiator: outbound SPI is the SPI of the responder\'s proposal, the inbound SPI stays the announced one',
                  key=('O6', 'initiator-spis'), site=ctx.site(rs, x))
        tsv = {}
        for side, pt in (('tsi', 'TSi'), ('tsr', 'TSr')):
            e = inline(res, rs, kw.get(side), 4, frozenset([rs.call_params()[0]])) if kw.get(side) is not None else None
            tsv[side] = e is not None and src(e) == '%s.get_payload(Payload.Type.%s, True).traffic_selectors[0]' % (rs.call_params()[0], pt)
        ctx.check(tsv['tsi'] and tsv['tsr'], 'O6', 'initiator: tsi is the narrowed TSi (its local side), tsr the narrowed TSr',
                  key=('O6', 'initiator-ts-narrowed'), site=ctx.site(rs, x))
        cc = [y for y in calls_in(rs.node) if callee_name(y) == 'create_child_sa']
        ctx.check(len(cc) == 1 and [src(a) for a in cc[0].args[:3]] == ['self', 'self.creating_child_sa', 'child_sa_keyring'] and
                  any(k.arg == 'is_initiator' and src(k.value) == 'True' for k in cc[0].keywords), 'O6',
                  'initiator: installs that ChildSa with the derived keyring as is_initiator=True', key=('O6', 'initiator-install'),
                  site=ctx.site(rs, rs.node))
        kd = single_def(res, rs, 'child_sa_keyring')
        ctx.check(isinstance(kd, ast.Call) and callee_name(kd) == 'generate_child_sa_key_material' and any(
            k.arg == 'child_proposal' and src(k.value) == prop for k in kd.keywords), 'O6',
            'initiator: the keyring is derived for the proposal the responder chose (the one installed), not for the offer',
            key=('O6', 'initiator-keyring'), site=ctx.site(rs, rs.node))
        asg = [n for n in walk_no_nested(rs.node) if isinstance(n, ast.Assign) and n.value is x]
        ctx.check(len(asg) == 1 and src(asg[0].targets[0]) == 'self.creating_child_sa', 'O6',
                  'initiator: the completed ChildSa replaces the pending one (namedtuple _replace returns a copy)',
                  key=('O6', 'initiator-rebind'), site=ctx.site(rs, x))
    gr = ctx.func(IKESA + '._generate_child_sa_negotiation_req')
    p0 = gr.call_params()[0]
    asg = [n for n in walk_no_nested(gr.node) if isinstance(n, ast.Assign) and src(n.targets[0]) == p0 + '.proposal.spi']
    sa = [y for y in calls_in(gr.node) if callee_name(y) == 'PayloadSA']
    ctx.check(len(asg) == 1 and src(asg[0].value) == p0 + '.inbound_spi' and len(sa) == 1 and src(sa[0].args[0]) == '[%s.proposal]' % p0,
              'O6', 'initiator: the request announces its inbound SPI in the SA payload', key=('O6', 'initiator-announce'),
              site=ctx.site(gr, gr.node))
    ts = [(callee_name(y), src(y.args[0])) for y in calls_in(gr.node) if callee_name(y) in ('PayloadTSi', 'PayloadTSr')]
    ctx.check(sorted(ts) == [('PayloadTSi', p0 + '.tsi'), ('PayloadTSr', p0 + '.tsr')], 'O6',
              'initiator: TSi carries its local selectors (tsi), TSr the peer-side ones', key=('O6', 'initiator-ts'), site=ctx.site(gr, gr.node))
    for q in (IKESA + '.process_acquire', IKESA + '.process_expire'):
        fi = ctx.func(q)
        for c in [c for c in calls_in(fi.node) if callee_name(c) == 'ChildSa']:
            kw = kwargs_of(c, names=[])
            ctx.check(src(kw.get('inbound_spi')) == 'os.urandom(4)' and isinstance(kw.get('outbound_spi'), ast.BinOp), 'O6',
                      '%s: the pending ChildSa has a fresh inbound SPI and a placeholder outbound SPI' % fi.name,
                      key=('O6', q, 'pending-spis'), site=ctx.site(fi, c))
    pa = ctx.func(IKESA + '.process_acquire')
    for c in [c for c in calls_in(pa.node) if callee_name(c) == 'ChildSa']:
        kw = kwargs_of(c, names=[])
        ps = pa.call_params()
        ctx.check(src(kw.get('tsi')).startswith('(%s, ' % ps[0]) and src(kw.get('tsi')).endswith('.my_ts)')
                  and src(kw.get('tsr')).startswith('(%s, ' % ps[1]) and src(kw.get('tsr')).endswith('.peer_ts)'), 'O6',
                  'process_acquire: tsi offers the local selectors (acquire source, policy my_ts), tsr the peer-side ones',
                  key=('O6', 'acquire-ts'), site=ctx.site(pa, c))

    # ---------------------------------------------------------------- O7
    cc = ctx.func('xfrm.Xfrm.create_child_sa')
    csa = ctx.func('xfrm.Xfrm.create_sa')
    calls = [c for c in calls_in(cc.node) if callee_name(c) == 'create_sa']
    ctx.check(len(calls) == 2, 'O7', 'create_child_sa installs exactly two kernel SAs', key=('O7', 'two-calls'), site=ctx.site(cc, cc.node))
    if len(calls) == 2:
        b1 = {k: src(v) for k, v in kwargs_of(calls[0], target=csa).items()}
        b2 = {k: src(v) for k, v in kwargs_of(calls[1], target=csa).items()}
        if b1.get('spi') == 'child_sa.inbound_spi':
            b1, b2 = b2, b1
        want1 = {'src_selector': 'src_selector', 'dst_selector': 'dst_selector', 'src_port': 'src_port', 'dst_port': 'dst_port',
                 'spi': 'child_sa.outbound_spi', 'src': 'ike_sa.my_addr', 'dst': 'ike_sa.peer_addr', 'sk_e': 'sk_ei', 'sk_a': 'sk_ai',
                 'mode': 'child_sa.mode', 'ip_proto': 'ip_proto', 'ipsec_proto': 'ipsec_proto', 'enc_algorithm': 'encr_alg',
                 'auth_algorithm': 'integ_alg', 'lifetime': 'lifetime'}
        for k, v in want1.items():
            ctx.check(b1.get(k) == v, 'O7', 'outbound SA: %s = %s' % (k, v), key=('O7', 'outbound', k), site=ctx.site(cc, calls[0]),
                      detail={'found': b1.get(k)})
        for k in csa.call_params():
            v1 = b1.get(k)
            ctx.check(v1 is not None and b2.get(k) == SIGMA.get(v1, v1), 'O7', 'inbound SA: %s is the mirror image of the outbound SA\'s (%s)'
                      % (k, SIGMA.get(v1, v1) if v1 else '?'), key=('O7', 'mirror', k), site=ctx.site(cc, calls[1]),
                      detail={'outbound': v1, 'inbound': b2.get(k)})
        want_loc = {'src_selector': 'child_sa.tsi.get_network()', 'dst_selector': 'child_sa.tsr.get_network()',
                    'src_port': 'child_sa.tsi.get_port()', 'dst_port': 'child_sa.tsr.get_port()', 'ip_proto': 'child_sa.tsi.ip_proto'}
        for k, v in want_loc.items():
            d = single_def(res, cc, k)
            ctx.check(isinstance(d, ast.AST) and src(d) == v, 'O7', '%s = %s (tsi is the local selector)' % (k, v),
                      key=('O7', 'local', k), site=ctx.site(cc, cc.node))
        ifs = [n for n in walk_no_nested(cc.node) if isinstance(n, ast.If) and src(n.test) in ('is_initiator', 'not is_initiator')]
        ok = len(ifs) == 1 and len(ifs[0].body) == 1 and len(ifs[0].orelse) == 1
        if ok:
            tb, fb = (ifs[0].body[0], ifs[0].orelse[0]) if src(ifs[0].test) == 'is_initiator' else (ifs[0].orelse[0], ifs[0].body[0])

            def binding(st):
                if isinstance(st, ast.Assign) and isinstance(st.targets[0], ast.Tuple) and isinstance(st.value, ast.Tuple) \
                        and len(st.targets[0].elts) == len(st.value.elts):
                    return {src(a): src(b) for a, b in zip(st.targets[0].elts, st.value.elts)}
                return None
            bi, br = binding(tb), binding(fb)
            kp = cc.call_params()[2]
            ok = bi == {'sk_ei': kp + '.sk_ei', 'sk_er': kp + '.sk_er', 'sk_ai': kp + '.sk_ai', 'sk_ar': kp + '.sk_ar'} and \
                br == {'sk_ei': kp + '.sk_er', 'sk_er': kp + '.sk_ei', 'sk_ai': kp + '.sk_ar', 'sk_ar': kp + '.sk_ai'}
        ctx.check(ok, 'O7', 'the initiator\'s outbound SA gets the initiator-to-responder keys (SK_ei, SK_ai), the responder\'s the '
                  'responder-to-initiator keys; the switch is the mirror image', key=('O7', 'role-switch'), site=ctx.site(cc, cc.node))
    dl = ctx.func('xfrm.Xfrm.delete_child_sa')
    ds = [[src(a) for a in c.args] for c in calls_in(dl.node) if callee_name(c) == 'delete_sa']
    ctx.check(sorted(ds) == sorted([['ike_sa.peer_addr', 'ipsec_protocol', 'child_sa.outbound_spi'],
                                    ['ike_sa.my_addr', 'ipsec_protocol', 'child_sa.inbound_spi']]), 'O7',
              'deletion addresses the same (destination, SPI) pairs: outbound at the peer address, inbound at ours',
              key=('O7', 'delete-orientation'), site=ctx.site(dl, dl.node))

    # ---------------------------------------------------------------- O8 / O9
    common.create_sa_orientation(ctx, 'O8')
    names = {}
    for n in walk_no_nested(cc.node):
        if isinstance(n, ast.Assign) and isinstance(n.value, ast.Dict):
            names[src(n.targets[0])] = {src(k).split('.')[-1]: (v.value if isinstance(v, ast.Constant) else None)
                                        for k, v in zip(n.value.keys, n.value.values)}
    ctx.check(names.get('_cipher_names', {}).get('ENCR_AES_CBC') == b'cbc(aes)', 'O9', 'AES-CBC is installed as cbc(aes)',
              key=('O9', 'cipher-name'), site=ctx.site(cc, cc.node))
    for k, v in {'AUTH_HMAC_SHA1_96': b'hmac(sha1)', 'AUTH_HMAC_SHA2_256_128': b'hmac(sha256)', 'AUTH_HMAC_SHA2_512_256': b'hmac(sha512)'}.items():
        ctx.check(names.get('_auth_names', {}).get(k) == v, 'O9', '%s is installed as %s' % (k, v.decode()), key=('O9', 'auth-name', k),
                  site=ctx.site(cc, cc.node))
    for var, tbl, tt in (('encr_alg', '_cipher_names', 'ENCR'), ('integ_alg', '_auth_names', 'INTEG')):
        d = single_def(res, cc, var)
        t = src(d) if isinstance(d, ast.AST) else ''
        ctx.check('%s[child_sa.proposal.get_transform(Transform.Type.%s).id]' % (tbl, tt) in t, 'O9',
                  '%s is looked up by the negotiated %s transform of the CHILD_SA' % (var, tt), key=('O9', 'lookup', var),
                  site=ctx.site(cc, cc.node))


MANIFEST = {
    'level': 'Static decision of role orientation on both roles: SK_* split order and the two direction Crypto objects, '
             'complementary my/peer selection, provenance of Ni/Nr/SPIi/SPIr/g^ir/old SK_d at both derivation sites and their four '
             'callers, CHILD keyring positions, SPI/selector orientation of every ChildSa construction (incl. the read-before-'
             'overwrite ordering on the responder), the two kernel SA installations checked as an argument-wise involution with the '
             'is_initiator key switch, kernel field orientation and algorithm names. These are exactly the swaps that pass the '
             'suite (both test peers run the same code, XFRM is mocked).',
    'note': 'Trusted: resolver typing. Declined: byte equality of keys across hosts, kernel behaviour.',
    'technique': 'provenance/orientation dataflow + term comparison + mirror (involution) check of sibling call sites',
    'design_ref': 'DESIGN.md 3/C01',
}
