"""C01 - Peers derive the same keys and install mirror-image IPsec SAs  (claimed clause: role orientation).

Both peers run the same functions with opposite `is_initiator` and with locally / remotely sourced
operands exchanged.  Identical keyrings and mirror-image kernel SAs therefore require:

O1  SK_* split order and the two Crypto(...) objects: the *i* keys make the initiator-direction Crypto,
    the *r* keys the responder-direction one, each key in the like-named parameter.
O2  my_crypto / peer_crypto are complementary selections on is_initiator.
O3  at the two derivation sites every operand with an i/r subscript comes from the source that belongs to
    that subscript for that role (responder: Ni, SPIi from the peer / Nr, SPIr local; initiator: the
    converse); both rekey callers pass the old SK_d, both IKE_SA_INIT callers pass none; the peer SPI is
    learnt before keys are derived.
O4  CHILD keyring positions (KEYMAT split, shared with C04/K4).
O6  ChildSa construction per role: outbound SPI from the peer's proposal, inbound SPI fresh and the one
    announced to the peer (announced *after* the peer's value was read on the responder); tsi is always
    the local selector.
O7  Xfrm.create_child_sa: the inbound kernel SA is the exact argument-wise mirror of the outbound one under
    the involution {src<->dst selector/port/address, outbound<->inbound SPI, ei<->er, ai<->ar}; the outbound
    one pairs outbound SPI with (my_addr -> peer_addr), the local selector as source and the sender's
    direction keys; the is_initiator switch gives the initiator the *i* keys for its outbound SA.
O8  Xfrm.create_sa puts each parameter into the like-oriented kernel field (shared with C14/L3).
O9  kernel algorithm names per transform.

All operands are compared as value terms (sa.sval): what reaches a parameter, written over the function's own
parameters, attributes and calls - local variable names, helper functions, if-statement versus conditional
expression and argument passing style do not matter.
"""
import ast

from ..model import namedtuple_fields, walk_no_nested
from ..sval import NONE, const, mk_cond, same, strip_ids
from .. import tq
from . import common
from .c04 import RFC_ORDER, Split

EXPLANATION = ('static analysis: provenance and orientation of every operand with a role subscript (i/r, my/peer, in/out, '
               'src/dst) at the key-derivation sites, the ChildSa construction sites and the two kernel SA installations, the '
               'latter checked as an argument-wise involution; values are not compared, orientation is')
ASSUMPTIONS = [
    'declined: equality of the derived bytes on two hosts (HMAC/DH are trusted); COOKIE / INVALID_KE retries are covered '
    'structurally by C13/C18; what the kernel does with the request (C14 decides the request bytes)',
]

IKESA = 'ikesa.IkeSa'


def attr(t, name):
    return ('attr', t, name)


def P(name):
    return ('param', name)


def idx(t, i):
    return ('index', t, const(i))


def successor_construction(ctx, rule):
    """the IKE_SA that replaces this one at a rekey is built with the role of the rekey exchange (initiator of the rekey = initiator
    of the new IKE_SA: header flag, SPI order and key directions follow from it), the peer SPI of the proposal, and the same
    configuration and endpoints (the CHILD_SAs it inherits are addressed with them)"""
    # successor construction: roles and peer SPI
    for q, role, spi in ((IKESA + '.process_create_child_sa_request', False, 'request.get_payload(Payload.Type.SA, True).proposals[0].spi'),
                         (IKESA + '.generate_rekey_ike_sa_request', True, "b''")):
        fi = ctx.func(q)
        S = ctx.sval(fi)
        cs = S.calls_to(callee='new ikesa.IkeSa')
        ok = len(cs) == 1
        found = None
        if ok:
            b = cs[0].args
            found = {k: tq.text(v, 120) for k, v in b.items()}
            ok = b.get('is_initiator') == const(role) and b.get('peer_spi') is not None \
                and tq.match(S.expr(spi), b['peer_spi']) is not None \
                and [b.get(k) for k in ('configuration', 'my_addr', 'peer_addr')] == [attr(P('self'), k) for k in (
                    'configuration', 'my_addr', 'peer_addr')]
        ctx.check(ok, rule, '%s: the successor IKE_SA has role is_initiator=%s, peer SPI %s and the same endpoints' % (
            fi.name, role, 'of the peer\'s proposal' if not role else "b'' (not yet known)"),
            key=(rule, q, 'successor'), site=ctx.site(fi, fi.node), detail={'found': found})



def dh_writers(ctx, rule):
    prog = ctx.prog
    # self.dh is the DH object of our *own outstanding request*: a responder-side negotiation that stored its DH object there would
    # overwrite the private value of a request of ours that is in flight (crossing exchanges) and the two peers would derive
    # different keys.  Frozen who-writes table, confirmed by reading: the two request generators and the two INVALID_KE retries.
    writers = set()
    for fi in prog.cls(IKESA).methods.values():
        if isinstance(fi.node, ast.FunctionDef) and any(t == attr(P('self'), 'dh') for t, _, _, _, _ in ctx.sval(fi).stores):
            writers.add(fi.name)
    allowed = {'__init__', '_generate_ike_sa_negotiation_request', '_generate_child_sa_negotiation_req', 'process_ike_sa_init_response',
               'process_create_child_sa_response'}
    ctx.check(writers <= allowed and {'_generate_ike_sa_negotiation_request', '_generate_child_sa_negotiation_req'} <= writers, rule,
              'self.dh (the DH object of our own outstanding request) is written only where a request or its INVALID_KE retry is '
              'generated, never while answering the peer\'s request', key=(rule, 'dh-writers', ','.join(sorted(writers - allowed))),
              detail={'writers': sorted(writers)})
    # the INVALID_KE retry refreshes the DH object of the exchange that is in progress: the successor's while an IKE_SA rekey is
    # outstanding (state REK_IKE_SA_REQ_SENT), our own otherwise - decided by the state, not by whatever `new_ike_sa` still holds
    # from an earlier, refused rekey
    fi = ctx.func(IKESA + '.process_create_child_sa_response')
    S = ctx.sval(fi)
    rek = S.expr('self.state == IkeSa.State.REK_IKE_SA_REQ_SENT')
    n = 0
    for t, v, pc, st, _ in S.stores:
        t = strip_ids(t)
        if t[0] == 'attr' and t[2] == 'dh':
            n += 1
            if t[1] == P('self'):
                ok = tq.entails(pc, ('not', rek)) is True
            elif t[1] == attr(P('self'), 'new_ike_sa'):
                ok = tq.entails(pc, rek) is True
            else:
                ok = False
            ctx.check(ok, rule, 'process_create_child_sa_response: the retry\'s DH object is stored on the successor exactly while an IKE_SA '
                      'rekey is outstanding, else on this IKE_SA', key=(rule, 'dh-retry-owner', tq.text(t, 60)), site=ctx.site(fi, st),
                      detail={'stored to': tq.text(t, 120)})
    ctx.floor('%s INVALID_KE retries in process_create_child_sa_response' % rule, n, 2, rule=rule)


def derivation_sites(ctx, rule):
    """what each of the two negotiation functions feeds into the IKE key derivation: Ni / Nr, SPIi / SPIr (the responder's SPI from the
    header of the response, from the SA payload on a rekey), g^ir from the DH object of the exchange, the old SK_d, the chosen
    proposal - and that the derived keyring is kept (shared: C01 O3, C04 K3)"""
    prog = ctx.prog
    gk = ctx.func(IKESA + '.generate_ike_sa_key_material')
    sites = {}
    for fi in prog.cls(IKESA).methods.values():
        if not isinstance(fi.node, ast.FunctionDef):
            continue
        for c in ctx.sval(fi).calls_to(qual=gk.qual):
            sites.setdefault(fi.qual, []).append((fi, c))
    ctx.check(set(sites) == {IKESA + '._process_ike_sa_negotiation_request', IKESA + '.process_ike_sa_negotiation_response'}
              and all(len(v) == 1 for v in sites.values()), rule,
              'IKE keys are derived once in the responder and once in the initiator negotiation function', key=(rule, 'sites'),
              detail={'found': sorted(sites)})
    for q, lst in sites.items():
        fi, c = lst[0]
        S = ctx.sval(fi)
        b = c.args
        msg = fi.call_params()[0]
        responder = q.endswith('_process_ike_sa_negotiation_request')

        def m(pattern, t):
            return t is not None and tq.match(S.expr(pattern), t) is not None
        peer_nonce = '%s.get_payload(Payload.Type.NONCE, _).nonce' % msg
        peer_ke = '%s.get_payload(Payload.Type.KE, _)' % msg
        cs = [x for x in S.calls if x.name == 'compute_secret']
        if responder:
            exp = [('nonce_i', m(peer_nonce, b.get('nonce_i')), 'Ni is the nonce of the received request'),
                   ('spi_i', b.get('spi_i') == attr(P('self'), 'peer_spi'), 'SPIi is the peer\'s SPI'),
                   ('spi_r', b.get('spi_r') == attr(P('self'), 'my_spi'), 'SPIr is our SPI')]
            nr = b.get('nonce_r')
            fresh = nr is not None and nr[0] == 'attr' and nr[2] == 'nonce' and tq.is_call(nr[1], 'new message.PayloadNONCE') \
                and not tq.args(nr[1])
            exp.append(('nonce_r', fresh, 'Nr is the freshly drawn nonce put into the response'))
            rets = [t for _, t, _ in S.returns]
            sent = fresh and bool(rets) and all(t[0] == 'list' and nr[1] in t[1] for t in rets)
            exp.append(('nonce_r-sent', sent, 'the nonce used as Nr is the one returned in the response payloads'))
            ss = b.get('shared_secret')
            dh = ss[1] if ss is not None and ss[0] == 'attr' and ss[2] == 'shared_secret' else None
            ok = dh is not None and m('DiffieHellman.from_group(%s.dh_group)' % peer_ke, dh) and len(cs) == 1 and cs[0].recv == dh \
                and m(peer_ke + '.ke_data', list(cs[0].args.values())[0] if cs[0].args else None) and cs[0].seq < c.seq
            ke = S.calls_to(callee='new message.PayloadKE')
            ok = ok and len(ke) == 1 and ke[0].args.get('dh_group') == attr(dh, 'group') and ke[0].args.get('ke_data') == attr(dh, 'public_key') \
                and all(t[0] == 'list' and ke[0].term in t[1] for t in rets)
            exp.append(('shared_secret', ok, 'g^ir comes from a fresh DH object fed with the peer\'s KE data, whose public value is returned'))
        else:
            exp = [('nonce_i', b.get('nonce_i') == P(fi.call_params()[1]), 'Ni is the nonce handed in by the caller'),
                   ('nonce_r', m(peer_nonce, b.get('nonce_r')), 'Nr is the nonce of the received response'),
                   ('spi_i', b.get('spi_i') == attr(P('self'), 'my_spi'), 'SPIi is our SPI')]
            dh = attr(P('self'), 'dh')
            ok = b.get('shared_secret') == attr(dh, 'shared_secret') and len(cs) == 1 and cs[0].recv == dh \
                and m(peer_ke + '.ke_data', list(cs[0].args.values())[0] if cs[0].args else None) and cs[0].seq < c.seq
            exp.append(('shared_secret', ok, 'g^ir comes from the DH object of our request fed with the peer\'s KE data'))
            # the peer SPI is learnt before the keys are derived: the SPIr operand is the value just stored in self.peer_spi
            want = S.expr('%s.spi_r if old_sk_d is None else %s.get_payload(Payload.Type.SA, _).proposals[0].spi' % (msg, msg))
            ok = b.get('spi_r') is not None and tq.match(want, b['spi_r']) is not None and S.final('self.peer_spi') == b['spi_r']
            exp.append(('peer_spi', ok, 'the peer SPI is taken from the response header (from the SA payload on a rekey) before deriving'))
        exp.append(('old_sk_d', b.get('old_sk_d') == P('old_sk_d') and 'old_sk_d' in fi.call_params(), 'the old SK_d is passed through'))
        chosen = [(v, s) for t, v, _, _, s in S.stores if t == attr(P('self'), 'chosen_proposal') and s < c.seq]
        exp.append(('ike_proposal', bool(chosen) and b.get('ike_proposal') == chosen[-1][0], 'keys are derived for the chosen proposal'))
        for k, ok, what in exp:
            ctx.check(ok, rule, '%s: %s' % (fi.name, what), key=(rule, q, k), site=ctx.site(fi, c.node),
                      detail={'found': tq.text(b[k], 300) if k in b else None})
        kept = [v for t, v, _, _, _ in S.stores if t == attr(P('self'), 'ike_sa_keyring')]
        ctx.check(len(kept) == 1 and kept[0] == c.term, rule, '%s keeps the derived keyring' % fi.name,
                  key=(rule, q, 'keyring'), site=ctx.site(fi, c.node))


def run(ctx):
    prog = ctx.prog

    # ---------------------------------------------------------------- O1 / O2
    gk = ctx.func(IKESA + '.generate_ike_sa_key_material')
    V = ctx.sval(gk)
    kr = V.ret()
    U = None
    ok = tq.is_call(kr, 'namedtuple.Keyring')
    if ok:
        a = tq.args(kr)
        sp = Split(V, [a.get(n) for n in RFC_ORDER])
        ok = sp.kind is not None and sp.sizes(ctx, gk, {'prf': 5, 'integ': 7, 'encr': 11}) == [5, 7, 7, 11, 11, 5, 5]
        U = a if ok else None
    ctx.check(ok, 'O1', 'the SK_* material is split in RFC order SK_d|SK_ai|SK_ar|SK_ei|SK_er|SK_pi|SK_pr and returned in the '
              'like-named Keyring fields', key=('O1', 'split-order'), site=ctx.site(gk, gk.node),
              detail={'returned': tq.text(kr)})
    ctx.check(namedtuple_fields(prog, 'ikesa', 'Keyring') == RFC_ORDER, 'O1', 'Keyring fields are declared in that order',
              key=('O1', 'keyring-fields'))
    cinit = ctx.func('crypto.Crypto.__init__')
    CV = ctx.sval(cinit)
    stored = {t[2]: v for t, v, _, _, _ in CV.stores if t[0] == 'attr' and t[1] == P('self')}
    ctx.check(stored == {p: P(p) for p in cinit.call_params()} and set(stored) == {'cipher', 'sk_e', 'integrity', 'sk_a', 'prf', 'sk_p'},
              'O1', 'Crypto keeps each constructor argument under the like-named attribute', key=('O1', 'crypto-fields'),
              site=ctx.site(cinit, cinit.node))
    cr = V.calls_to(callee='new crypto.Crypto')
    dirs = {}
    if U is not None:
        for c in cr:
            keys = tuple(c.args.get(p) for p in ('sk_e', 'sk_a', 'sk_p'))
            if keys == (U['sk_ei'], U['sk_ai'], U['sk_pi']):
                dirs['i'] = c.term
            elif keys == (U['sk_er'], U['sk_ar'], U['sk_pr']):
                dirs['r'] = c.term
    ctx.check(len(cr) == 2 and set(dirs) == {'i', 'r'}, 'O1', 'two Crypto objects: one from (SK_ei, SK_ai, SK_pi), one from '
              '(SK_er, SK_ar, SK_pr), each key in the like-named parameter', key=('O1', 'crypto-objects'), site=ctx.site(gk, gk.node),
              detail={str(c.node.lineno): {p: tq.text(v, 120) for p, v in c.args.items()} for c in cr})
    if set(dirs) == {'i', 'r'}:
        isi = attr(P('self'), 'is_initiator')
        for name, when_init, when_resp in (('my_crypto', dirs['i'], dirs['r']), ('peer_crypto', dirs['r'], dirs['i'])):
            st = [V.final('self.' + name)]
            ctx.check(st[0] == mk_cond(isi, when_init, when_resp), 'O2',
                      '%s is the %s-direction Crypto for the initiator and the other one for the responder' % (
                          name, 'initiator' if name == 'my_crypto' else 'responder'), key=('O2', name), site=ctx.site(gk, gk.node),
                      detail={'stored': [tq.text(x, 200) for x in st if x]})
        others = [f.qual for f in prog.all_functions() if f.qual != gk.qual and f.name != '__init__' for n in walk_no_nested(f.node)
                  if isinstance(n, ast.Assign) and any(isinstance(t, ast.Attribute) and t.attr in ('my_crypto', 'peer_crypto')
                                                       for t in n.targets)]
        ctx.check(not others, 'O2', 'my_crypto / peer_crypto are assigned nowhere else', key=('O2', 'other-writers', ','.join(others)))

    # ---------------------------------------------------------------- O3
    derivation_sites(ctx, 'O3')
    dh_writers(ctx, 'O3')
    # callers: old SK_d and Ni
    callers = [
        (IKESA + '.process_ike_sa_init_request', '_process_ike_sa_negotiation_request', False),
        (IKESA + '.process_create_child_sa_request', '_process_ike_sa_negotiation_request', True),
        (IKESA + '.process_ike_sa_init_response', 'process_ike_sa_negotiation_response', False),
        (IKESA + '.process_create_child_sa_response', 'process_ike_sa_negotiation_response', True)]
    old = attr(attr(P('self'), 'ike_sa_keyring'), 'sk_d')
    for q, callee, rekey in callers:
        fi = ctx.func(q)
        S = ctx.sval(fi)
        cs = S.calls_to(qual=IKESA + '.' + callee)
        ctx.check(len(cs) == 1, 'O3', '%s calls %s once' % (fi.name, callee), key=('O3', q, 'call'), site=ctx.site(fi, fi.node))
        for c in cs:
            b = c.args
            ctx.check((b.get('old_sk_d') == old) if rekey else (b.get('old_sk_d') in (None, NONE)), 'O3',
                      '%s: %s' % (fi.name, 'the rekey derivation is keyed with the old IKE_SA\'s SK_d' if rekey else
                                  'the initial derivation has no old SK_d'), key=('O3', q, 'old_sk_d'), site=ctx.site(fi, c.node),
                      detail={'found': tq.text(b['old_sk_d']) if 'old_sk_d' in b else None})
            if rekey:
                # (the object may be bound to self.new_ike_sa before or after the derivation ran on it)
                succ = [v for t, v, _, _, s in S.stores if t == attr(P('self'), 'new_ike_sa') and (s < c.seq or tq.is_call(v, 'new ikesa.IkeSa'))]
                ok = c.recv == attr(P('self'), 'new_ike_sa') or (bool(succ) and c.recv in succ)
            else:
                ok = c.recv == P('self')
            ctx.check(ok, 'O3', '%s: the keys are derived on %s' % (fi.name, 'the successor IKE_SA' if rekey else 'this IKE_SA'),
                      key=('O3', q, 'receiver'), site=ctx.site(fi, c.node), detail={'receiver': tq.text(c.recv, 200)})
            if callee == 'process_ike_sa_negotiation_response':
                ctx.check(b.get('nonce') is not None and tq.match(S.expr('self.request.get_payload(Payload.Type.NONCE, _).nonce'),
                                                                 b['nonce']) is not None or
                          tq.match(S.expr('self.request.get_payload(Payload.Type.NONCE).nonce'), b.get('nonce', NONE)) is not None, 'O3',
                          '%s: Ni is the nonce of our own outstanding request' % fi.name, key=('O3', q, 'nonce'), site=ctx.site(fi, c.node),
                          detail={'found': tq.text(b['nonce']) if 'nonce' in b else None})
    successor_construction(ctx, 'O3')
    # g^ir itself: both peers feed the same octets into SKEYSEED / KEYMAT only if the shared secret and the public values have the
    # fixed width of the group on both sides (a value with leading zero octets must keep them)
    from .c04 import check_primes, check_ecdh
    check_primes(ctx, 'O3', 'O3')
    check_ecdh(ctx, 'O3')

    # ---------------------------------------------------------------- O4
    gc = ctx.func(IKESA + '.generate_child_sa_key_material')
    G = ctx.sval(gc)
    kr = G.ret()
    ok = tq.is_call(kr, 'namedtuple.Keyring')
    if ok:
        a = tq.args(kr)
        sp = Split(G, [a.get(n) for n in ('sk_ei', 'sk_ai', 'sk_er', 'sk_ar')])
        ok = sp.kind is not None and [a.get(n) for n in ('sk_d', 'sk_pi', 'sk_pr')] == [NONE, NONE, NONE] \
            and sp.sizes(ctx, gc, {'encr': 11, 'integ': 7}) == [11, 7, 11, 7]
    ctx.check(ok, 'O4', 'KEYMAT is split as SK_ei|SK_ai|SK_er|SK_ar (initiator-to-responder keys first) and stored at the like-named '
              'Keyring positions', key=('O4', 'split'), site=ctx.site(gc, gc.node), detail={'returned': tq.text(kr, 600)})

    # ---------------------------------------------------------------- O6
    rq = ctx.func(IKESA + '._process_create_child_sa_negotiation_req')
    R = ctx.sval(rq)
    req = rq.call_params()[0]
    cs = R.calls_to(callee='namedtuple.ChildSa')
    ctx.check(len(cs) == 1, 'O6', 'the responder builds one ChildSa', key=('O6', 'responder-childsa'), site=ctx.site(rq, rq.node))
    for c in cs:
        kw = c.args
        prop = kw.get('proposal')
        ok = prop is not None and tq.is_call(prop, 'ikesa.IkeSa._select_best_sa_proposal') and \
            tq.match(R.expr('%s.get_payload(Payload.Type.SA, True)' % req), tq.args(prop).get('peer_payload_sa', NONE)) is not None
        ctx.check(ok and kw.get('outbound_spi') == attr(prop, 'spi') and tq.match(R.expr('os.urandom(4)'), kw.get('inbound_spi', NONE)) is not None,
                  'O6', 'responder: outbound SPI is the SPI of the peer\'s (chosen) proposal, inbound SPI is fresh',
                  key=('O6', 'responder-spis'), site=ctx.site(rq, c.node),
                  detail={'outbound_spi': tq.text(kw.get('outbound_spi', NONE), 200), 'inbound_spi': tq.text(kw.get('inbound_spi', NONE))})
        lk = R.calls_to(qual=IKESA + '._get_ipsec_configuration')
        ok = len(lk) == 1 and kw.get('tsi') == idx(lk[0].term, 1) and kw.get('tsr') == idx(lk[0].term, 2) and \
            tq.match(R.expr('%s.get_payload(Payload.Type.TSi, True)' % req), lk[0].args.get('payload_tsi', NONE)) is not None and \
            tq.match(R.expr('%s.get_payload(Payload.Type.TSr, True)' % req), lk[0].args.get('payload_tsr', NONE)) is not None
        gi = ctx.func(IKESA + '._get_ipsec_configuration')
        GI = ctx.sval(gi)
        rets = [t for _, t, _ in GI.returns]

        def from_ts(t, param):
            """an element of <param>.traffic_selectors (possibly reversed)"""
            return t[0] == 'elem' and tq.contains(t[1], attr(P(param), 'traffic_selectors'))

        def local_ok(t):
            return t[0] == 'tuple' and len(t[1]) == 3 and (
                (from_ts(t[1][1], 'payload_tsr') and from_ts(t[1][2], 'payload_tsi')) or
                (t[1][1] == attr(t[1][0], 'my_ts') and t[1][2] == attr(t[1][0], 'peer_ts')))
        ok = ok and bool(rets) and all(local_ok(strip_ids(t)) for t in rets)
        ctx.check(ok, 'O6', 'responder: tsi of the ChildSa is the local-side selector (requested TSr / policy my_ts), tsr the peer-side one',
                  key=('O6', 'responder-ts'), site=ctx.site(rq, c.node), detail={'lookup returns': [tq.text(t, 200) for t in rets]})
        ow = [(v, s) for t, v, _, _, s in R.stores if prop is not None and t == attr(prop, 'spi')]
        ok = len(ow) == 1 and ow[0][0] == kw.get('inbound_spi') and ow[0][1] > c.seq
        ctx.check(ok, 'O6', 'responder: the proposal\'s SPI is overwritten with our inbound SPI only after the peer\'s value was read',
                  key=('O6', 'responder-overwrite-order'), site=ctx.site(rq, c.node))
        sa = R.calls_to(callee='new message.PayloadSA')
        ctx.check(len(sa) == 1 and sa[0].args.get('proposals') == ('list', (prop,)) and bool(ow) and all(s < sa[0].seq for _, s in ow),
                  'O6', 'responder: the SA payload of the response carries that proposal (with our inbound SPI)',
                  key=('O6', 'responder-announce'), site=ctx.site(rq, rq.node))
        cc = R.calls_to(qual='xfrm.Xfrm.create_child_sa')
        kd = cc[0].args.get('keyring') if len(cc) == 1 else None
        ctx.check(len(cc) == 1 and cc[0].args.get('ike_sa') == P('self') and cc[0].args.get('child_sa') == c.term and
                  cc[0].args.get('is_initiator') == const(False), 'O6',
                  'responder: installs that ChildSa as is_initiator=False', key=('O6', 'responder-install'),
                  site=ctx.site(rq, rq.node))
        ctx.check(kd is not None and tq.is_call(kd, IKESA + '.generate_child_sa_key_material') and tq.args(kd).get('child_proposal') == prop,
                  'O6', 'responder: the installed keyring is derived for the chosen proposal', key=('O6', 'responder-keyring'),
                  site=ctx.site(rq, rq.node))
    rs = ctx.func(IKESA + '._process_create_child_sa_negotiation_res')
    S = ctx.sval(rs)
    resp = rs.call_params()[0]
    rep = S.calls_to(callee='method._replace')
    ctx.check(len(rep) == 1, 'O6', 'the initiator completes its ChildSa from the response', key=('O6', 'initiator-replace'),
              site=ctx.site(rs, rs.node))
    pending = attr(P('self'), 'creating_child_sa')
    for c in rep:
        kw = c.args
        prop = kw.get('proposal', NONE)
        ok = tq.match(S.expr('%s.get_payload(Payload.Type.SA, True).proposals[0]' % resp), prop) is not None
        ctx.check(ok and kw.get('outbound_spi') == attr(prop, 'spi') and 'inbound_spi' not in kw and c.recv == pending,
                  'O6', 'initiator: outbound SPI is the SPI of the responder\'s proposal, the inbound SPI stays the announced one',
                  key=('O6', 'initiator-spis'), site=ctx.site(rs, c.node))
        tsv = {}
        for side, pt in (('tsi', 'TSi'), ('tsr', 'TSr')):
            tsv[side] = tq.match(S.expr('%s.get_payload(Payload.Type.%s, True).traffic_selectors[0]' % (resp, pt)), kw.get(side, NONE)) is not None
        ctx.check(tsv['tsi'] and tsv['tsr'], 'O6', 'initiator: tsi is the narrowed TSi (its local side), tsr the narrowed TSr',
                  key=('O6', 'initiator-ts-narrowed'), site=ctx.site(rs, c.node))
        cc = S.calls_to(qual='xfrm.Xfrm.create_child_sa')
        kd = cc[0].args.get('keyring') if len(cc) == 1 else None
        ctx.check(len(cc) == 1 and cc[0].args.get('ike_sa') == P('self') and cc[0].args.get('child_sa') == c.term and
                  cc[0].args.get('is_initiator') == const(True), 'O6',
                  'initiator: installs that ChildSa as is_initiator=True', key=('O6', 'initiator-install'),
                  site=ctx.site(rs, rs.node))
        ctx.check(kd is not None and tq.is_call(kd, IKESA + '.generate_child_sa_key_material') and tq.args(kd).get('child_proposal') == prop,
                  'O6', 'initiator: the keyring is derived for the proposal the responder chose (the one installed), not for the offer',
                  key=('O6', 'initiator-keyring'), site=ctx.site(rs, rs.node))
        st = [v for t, v, _, _, _ in S.stores if t == pending]
        ctx.check(c.term in st, 'O6', 'initiator: the completed ChildSa replaces the pending one (namedtuple _replace returns a copy)',
                  key=('O6', 'initiator-rebind'), site=ctx.site(rs, c.node))
    gr = ctx.func(IKESA + '._generate_child_sa_negotiation_req')
    GR = ctx.sval(gr)
    p0 = P(gr.call_params()[0])
    ann = [(v, s) for t, v, _, _, s in GR.stores if t == attr(attr(p0, 'proposal'), 'spi')]
    sa = GR.calls_to(callee='new message.PayloadSA')
    ctx.check(len(ann) == 1 and ann[0][0] == attr(p0, 'inbound_spi') and len(sa) == 1 and
              sa[0].args.get('proposals') == ('list', (attr(p0, 'proposal'),)), 'O6',
              'initiator: the request announces its inbound SPI in the SA payload', key=('O6', 'initiator-announce'),
              site=ctx.site(gr, gr.node))
    ts = sorted((c.callee, tq.text(c.args.get('traffic_selectors', NONE))) for c in GR.calls
                if c.callee in ('new message.PayloadTSi', 'new message.PayloadTSr'))
    ctx.check(ts == [('new message.PayloadTSi', tq.text(attr(p0, 'tsi'))), ('new message.PayloadTSr', tq.text(attr(p0, 'tsr')))], 'O6',
              'initiator: TSi carries its local selectors (tsi), TSr the peer-side ones', key=('O6', 'initiator-ts'), site=ctx.site(gr, gr.node))
    for q in (IKESA + '.process_acquire', IKESA + '.process_expire'):
        fi = ctx.func(q)
        F = ctx.sval(fi)
        for c in F.calls_to(callee='namedtuple.ChildSa'):
            kw = c.args
            ob = kw.get('outbound_spi', NONE)
            ctx.check(tq.match(F.expr('os.urandom(4)'), kw.get('inbound_spi', NONE)) is not None and ob[0] == 'const' and
                      isinstance(ob[2], bytes) and len(ob[2]) == 4, 'O6',
                      '%s: the pending ChildSa has a fresh inbound SPI and a placeholder outbound SPI' % fi.name,
                      key=('O6', q, 'pending-spis'), site=ctx.site(fi, c.node))
    pa = ctx.func(IKESA + '.process_acquire')
    A = ctx.sval(pa)
    ps = pa.call_params()
    for c in A.calls_to(callee='namedtuple.ChildSa'):
        kw = c.args

        def offer(t, param, side):
            return t[0] == 'tuple' and len(t[1]) == 2 and t[1][0] == P(param) and t[1][1][0] == 'attr' and t[1][1][2] == side
        ctx.check(offer(kw.get('tsi', NONE), ps[0], 'my_ts') and offer(kw.get('tsr', NONE), ps[1], 'peer_ts') and
                  kw['tsi'][1][1][1] == kw['tsr'][1][1][1], 'O6',
                  'process_acquire: tsi offers the local selectors (acquire source, policy my_ts), tsr the peer-side ones',
                  key=('O6', 'acquire-ts'), site=ctx.site(pa, c.node))

    # ---------------------------------------------------------------- O7
    cc = ctx.func('xfrm.Xfrm.create_child_sa')
    csa = ctx.func('xfrm.Xfrm.create_sa')
    C = ctx.sval(cc)
    calls = C.calls_to(qual=csa.qual)
    ctx.check(len(calls) == 2 and all(not c.pc for c in calls), 'O7', 'create_child_sa installs exactly two kernel SAs, unconditionally',
              key=('O7', 'two-calls'), site=ctx.site(cc, cc.node))
    if len(calls) == 2:
        b1, b2 = calls[0].args, calls[1].args
        child, ike, kp, isi = P('child_sa'), P('ike_sa'), P(cc.call_params()[2]), P('is_initiator')
        if b1.get('spi') == attr(child, 'inbound_spi'):
            b1, b2 = b2, b1
        E = C.expr
        want1 = {'src_selector': E('child_sa.tsi.get_network()'), 'dst_selector': E('child_sa.tsr.get_network()'),
                 'src_port': E('child_sa.tsi.get_port()'), 'dst_port': E('child_sa.tsr.get_port()'),
                 'spi': attr(child, 'outbound_spi'), 'src': attr(ike, 'my_addr'), 'dst': attr(ike, 'peer_addr'),
                 'sk_e': mk_cond(isi, attr(kp, 'sk_ei'), attr(kp, 'sk_er')), 'sk_a': mk_cond(isi, attr(kp, 'sk_ai'), attr(kp, 'sk_ar')),
                 'mode': attr(child, 'mode')}
        # the protocol of the selector: the peer runs this function with tsi and tsr exchanged, so the value must not depend on which of
        # the two selectors is the local one; a packet has to match both, so where one says "any" (0) the other decides (F17: the
        # code read the local selector only)
        pt = strip_ids(b1.get('ip_proto', NONE))
        lp, rp = attr(attr(child, 'tsi'), 'ip_proto'), attr(attr(child, 'tsr'), 'ip_proto')
        tab = {}
        for p_ in (0, 6, 17):
            for q_ in (0, 6, 17):
                def leaf(t, p_=p_, q_=q_):
                    if t == lp:
                        return p_
                    if t == rp:
                        return q_
                    raise tq.NoValue()
                try:
                    tab[(p_, q_)] = int(tq.teval(pt, leaf))
                except (tq.NoValue, Exception):
                    tab[(p_, q_)] = None
        okp = all(tab[(p_, 0)] == p_ and tab[(0, p_)] == p_ and tab[(p_, p_)] == p_ for p_ in (0, 6, 17))
        ctx.check(okp, 'O7', 'the selector protocol of the SAs is the one either traffic selector names (the same value whichever of the two '
                  'is the local one)', key=('O7', 'selector-protocol'), site=ctx.site(cc, calls[0].node),
                  detail={'found': tq.text(pt, 200), '(local, remote) -> installed': {str(k): v for k, v in sorted(tab.items())}})
        for k, v in want1.items():
            ctx.check(k in b1 and same(b1[k], v), 'O7', 'outbound SA: %s = %s' % (k, tq.text(v, 120)), key=('O7', 'outbound', k),
                      site=ctx.site(cc, calls[0].node), detail={'found': tq.text(b1[k], 300) if k in b1 else None})
        sigma = [(attr(child, 'tsi'), attr(child, 'tsr')), (attr(child, 'outbound_spi'), attr(child, 'inbound_spi')),
                 (attr(ike, 'my_addr'), attr(ike, 'peer_addr')), (attr(kp, 'sk_ei'), attr(kp, 'sk_er')), (attr(kp, 'sk_ai'), attr(kp, 'sk_ar'))]

        def mirror(t):
            if isinstance(t, tuple):
                for x, y in sigma:
                    if t == x:
                        return y
                    if t == y:
                        return x
                return tuple(mirror(z) for z in t)
            return t
        mirrored = 0
        for k in csa.call_params():
            v1 = b1.get(k)
            if v1 is None:
                ctx.bad('O7', ('O7', 'mirror', k), 'outbound SA: parameter %s is not passed' % k, site=ctx.site(cc, calls[0].node))
                continue
            exp = mirror(strip_ids(v1))
            if k == 'ip_proto':
                exp = strip_ids(v1)          # the upper-layer protocol of the selector is the same in both directions
            mirrored += exp != strip_ids(v1)
            ctx.check(k in b2 and strip_ids(b2[k]) == exp, 'O7', 'inbound SA: %s is the mirror image of the outbound SA\'s' % k,
                      key=('O7', 'mirror', k), site=ctx.site(cc, calls[1].node),
                      detail={'outbound': tq.text(v1, 200), 'inbound': tq.text(b2[k], 200) if k in b2 else None})
        ctx.check(mirrored >= 8, 'O7', 'the involution exchanges selectors, ports, SPI, addresses and both keys (%d operands differ)' % mirrored,
                  key=('O7', 'role-switch'), site=ctx.site(cc, cc.node))
    dl = ctx.func('xfrm.Xfrm.delete_child_sa')
    D = ctx.sval(dl)
    ds = sorted((tq.text(c.args.get('daddr', NONE)), tq.text(c.args.get('spi', NONE))) for c in D.calls_to(qual='xfrm.Xfrm.delete_sa'))
    ctx.check(ds == sorted([('ike_sa.peer_addr', 'child_sa.outbound_spi'), ('ike_sa.my_addr', 'child_sa.inbound_spi')]), 'O7',
              'deletion addresses the same (destination, SPI) pairs: outbound at the peer address, inbound at ours',
              key=('O7', 'delete-orientation'), site=ctx.site(dl, dl.node), detail={'found': ds})

    # ---------------------------------------------------------------- O8 / O9
    common.create_sa_orientation(ctx, 'O8')
    if len(calls) == 2:
        enc, auth = calls[0].args.get('enc_algorithm', NONE), calls[0].args.get('auth_algorithm', NONE)
        esp = C.expr('child_sa.proposal.protocol_id == Proposal.Protocol.ESP')
        e_tbl = enc[2] if enc[0] == 'cond' and same(enc[1], esp) and enc[3] == NONE else None
        for var, t, tt in (('encryption', e_tbl, 'ENCR'), ('integrity', auth, 'INTEG')):
            ok = t is not None and t[0] == 'index' and t[1][0] == 'dict' and \
                same(t[2], C.expr('child_sa.proposal.get_transform(Transform.Type.%s).id' % tt))
            ctx.check(ok, 'O9', 'the %s algorithm name is looked up by the negotiated %s transform of the CHILD_SA%s' % (
                var, tt, ' (ESP only, else none)' if tt == 'ENCR' else ''), key=('O9', 'lookup', var), site=ctx.site(cc, cc.node),
                detail={'found': tq.text(enc if tt == 'ENCR' else auth, 300)})
            table = {}
            if ok:
                for ent in t[1][1]:
                    if len(ent) == 2 and ent[1][0] == 'const':
                        table[ent[0][1].split('.')[-1] if ent[0][0] == 'global' else tq.text(ent[0])] = ent[1][2]
            if tt == 'ENCR':
                ctx.check(table.get('ENCR_AES_CBC') == b'cbc(aes)', 'O9', 'AES-CBC is installed as cbc(aes)',
                          key=('O9', 'cipher-name'), site=ctx.site(cc, cc.node))
            else:
                for k, v in {'AUTH_HMAC_SHA1_96': b'hmac(sha1)', 'AUTH_HMAC_SHA2_256_128': b'hmac(sha256)',
                             'AUTH_HMAC_SHA2_512_256': b'hmac(sha512)'}.items():
                    ctx.check(table.get(k) == v, 'O9', '%s is installed as %s' % (k, v.decode()), key=('O9', 'auth-name', k),
                              site=ctx.site(cc, cc.node))


MANIFEST = {
    'level': 'Static decision of role orientation on both roles: SK_* split order and the two direction Crypto objects, '
             'complementary my/peer selection, provenance of Ni/Nr/SPIi/SPIr/g^ir/old SK_d at both derivation sites and their four '
             'callers, CHILD keyring positions, SPI/selector orientation of every ChildSa construction (incl. the read-before-'
             'overwrite ordering on the responder), the two kernel SA installations checked as an argument-wise involution with the '
             'is_initiator key switch, kernel field orientation and algorithm names. These are exactly the swaps that pass the '
             'suite (both test peers run the same code, XFRM is mocked).',
    'note': 'Trusted: resolver typing. Declined: byte equality of keys across hosts, kernel behaviour.',
    'technique': 'provenance/orientation dataflow over value terms (gated single assignment) + mirror (involution) check of sibling call sites',
    'design_ref': 'DESIGN.md 3/C01',
}
MANIFEST['note'] += (' Also decided here (necessary conditions shared between properties or added after the independent '
                     'change rounds, DESIGN.md 8.7): DH secret / public value widths (from C04), successor construction, writers of self.dh and the owner of the INVALID_KE retry. Rounds 7-8: the selector protocol is the same whichever selector is local (F17); the pieces of the key material however they are cut (unpack or slices).')
