"""C18 - Under load, no responder state or DH work without a valid cookie.

Q1 (A4)  with a cookie secret armed, the cookie comparison dominates every piece of negotiation work
         (proposal selection, nonce generation, DH, key derivation) and every store to the IKE_SA;
         the absent-cookie case takes the same refusing edge; the refusal carries the expected cookie.
Q2 (A6)  the expected cookie is HMAC-SHA256(secret, SPIi | Ni | source address); the secret is drawn
         once per controller from the OS; the comparison is a whole-value (in)equality with the first
         COOKIE notification; the address is the datagram's source address.
Q3 (A3+A8) the refusal is answered with exactly one COOKIE notification and leaves nothing behind:
         CookieRequired is a protocol error -> single-notify reply + DELETED -> removed by the
         controller; the secret is armed before the request is processed, iff the half-open count
         (new entry included) exceeds the threshold.
Q4        initiator: the same request object gets the cookie inserted first, its retained bytes are
         re-derived, Message ID 0 is reused, the DH value is kept.
"""
import ast

from ..model import src, walk_no_nested
from ..terms import callee_name, calls_in, compare_parts, flatten_add, inline, kwargs_of, single_def
from . import common

EXPLANATION = ('static analysis: blocked-edge reachability in _process_ike_sa_negotiation_request (no negotiation work '
               'or store reachable without passing the cookie comparison when a secret is armed), term extraction of the '
               'cookie, provenance of secret and address, the refusal path through the window code and the controller, '
               'and the shape of the initiator retry')
ASSUMPTIONS = [
    'declined: half-open counts around the threshold as runtime values; cookie replay histories (the binding to SPI, '
    'nonce and address is decided as a term, not by trying replays)',
]

NEG = 'ikesa.IkeSa._process_ike_sa_negotiation_request'
WORK = ('from_group', 'compute_secret', '_select_best_sa_proposal', 'generate_ike_sa_key_material', 'PayloadNONCE',
        'PayloadKE', 'PayloadSA')


def run(ctx):
    prog, res = ctx.prog, ctx.res
    esc = ctx.escape('engine', kills=common.engine_kills(ctx))
    fi = ctx.func(NEG)
    g = esc.add_exception_edges(fi)
    reqp = fi.call_params()[0]

    # ---------------------------------------------------------------- Q1
    armed = [c for c in g.nodes if c.kind == 'cond' and src(c.ast) in ('self.cookie_secret is not None', 'self.cookie_secret')]
    ctx.check(len(armed) == 1, 'Q1', 'the negotiation tests whether a cookie secret is armed', key=('Q1', 'no-armed-test'),
              site=ctx.site(fi, fi.node))
    cmps = []
    for c in g.nodes:
        if c.kind != 'cond':
            continue
        cp = compare_parts(c.ast)
        if cp and cp[1] in (ast.NotEq, ast.Eq) and any(src(s).endswith('.notification_data') for s in (cp[0], cp[2])):
            cmps.append((c, 'F' if cp[1] is ast.NotEq else 'T', cp))
    ctx.check(len(cmps) == 1, 'Q1', 'the received cookie is compared with the expected one', key=('Q1', 'no-cookie-compare'),
              site=ctx.site(fi, fi.node))
    if len(armed) != 1 or len(cmps) != 1:
        return
    K = armed[0]
    B, passing, cp = cmps[0]
    failing = 'T' if passing == 'F' else 'F'
    blocked = [(K.id, 'F', m.id) for lab, m in K.succ if lab == 'F'] + [(B.id, passing, m.id) for lab, m in B.succ if lab == passing]
    R = g.reach([g.entry], blocked_edges=blocked, follow_exc=False)
    work = common.nodes_calling(ctx, fi, g, lambda c, r: callee_name(c) in WORK)
    names = set(callee_name(x) for _, x in work)
    ctx.check({'from_group', 'compute_secret', '_select_best_sa_proposal', 'generate_ike_sa_key_material', 'PayloadNONCE'} <= names,
              'Q1', 'anchors: the negotiation selects a proposal, draws a nonce, runs DH and derives keys',
              key=('Q1', 'work-anchors'), site=ctx.site(fi, fi.node), detail={'found': sorted(names)})
    for n, x in work:
        ctx.check(n.id not in R, 'Q1', 'with a secret armed, `%s` runs only after the cookie comparison passed' % src(x)[:50],
                  key=('Q1', 'work-before-cookie', callee_name(x)), site=ctx.site(fi, x))
    for n in g.nodes:
        if n.id in R and n.kind == 'stmt' and isinstance(n.ast, (ast.Assign, ast.AugAssign)):
            tg = n.ast.targets if isinstance(n.ast, ast.Assign) else [n.ast.target]
            st = [t for t in tg for y in ast.walk(t) if isinstance(y, ast.Attribute) and isinstance(y.ctx, ast.Store)]
            ctx.check(not st, 'Q1', 'no IKE_SA field is written before the cookie comparison passed (`%s`)' % src(n.ast)[:50],
                      key=('Q1', 'store-before-cookie', src(n.ast)[:40]), site=ctx.site(fi, n.ast))
    # calls allowed before the check: lookups and the HMAC
    pre = set()
    for n in g.nodes:
        if n.id in R:
            for e in n.exprs():
                if e is not None:
                    for x in walk_no_nested(e):
                        if isinstance(x, ast.Call):
                            pre.add(callee_name(x))
    allowed = {'get_payload', 'get_payloads', 'get_notifies', 'HMAC', 'digest', 'len', 'CookieRequired'}
    ctx.check(pre <= allowed, 'Q1', 'before the comparison only payload lookups and the cookie HMAC run (%s)' % sorted(
        x for x in pre if x), key=('Q1', 'pre-check-calls', ','.join(sorted(str(x) for x in pre - allowed))),
        site=ctx.site(fi, fi.node))
    # refusal
    fn = [m for lab, m in B.succ if lab == failing]
    expected = [s for s in (cp[0], cp[2]) if not src(s).endswith('.notification_data')][0]
    ok = bool(fn) and all(isinstance(m.ast, ast.Raise) and isinstance(m.ast.exc, ast.Call) and callee_name(m.ast.exc) == 'CookieRequired'
                          and any(k.arg == 'cookie' and src(k.value) == src(expected) for k in m.ast.exc.keywords) for m in fn)
    ctx.check(ok, 'Q1', 'a wrong cookie raises CookieRequired carrying the expected cookie', key=('Q1', 'refusal'),
              site=ctx.site(fi, B.ast))
    empties = [c for c in g.nodes if c.kind == 'cond' and compare_parts(c.ast) and src(compare_parts(c.ast)[0]).startswith('len(')
               and isinstance(compare_parts(c.ast)[2], ast.Constant) and compare_parts(c.ast)[2].value == 0]
    received_list = src(B.ast).split('[')[0].split('(')[-1] if '[' in src(B.ast) else None
    ok = False
    for c in empties:
        lab = 'T' if compare_parts(c.ast)[1] is ast.Eq else 'F'
        tn = [m for l2, m in c.succ if l2 == lab]
        ok = ok or (all(m in fn for m in tn) and common.dominated_by_edge(g, B, c, 'F' if lab == 'T' else 'T'))
    truthy = [c for c in g.nodes if c.kind == 'cond' and received_list and src(c.ast) == received_list]
    for c in truthy:
        tn = [m for l2, m in c.succ if l2 == 'F']
        ok = ok or (all(m in fn for m in tn) and common.dominated_by_edge(g, B, c, 'T'))
    ctx.check(ok, 'Q1', 'a request without any cookie takes the same refusing edge (and the first-cookie subscript is guarded)',
              key=('Q1', 'absent-cookie'), site=ctx.site(fi, B.ast))

    # ---------------------------------------------------------------- Q2
    e = inline(res, fi, expected, 4, stop=frozenset([reqp]))
    ok = isinstance(e, ast.Call) and callee_name(e) == 'digest' and isinstance(e.func.value, ast.Call) \
        and callee_name(e.func.value) == 'HMAC'
    term = None
    if ok:
        h = e.func.value
        kw = kwargs_of(h, names=['key', 'msg', 'digestmod'])
        term = [src(x) for x in flatten_add(kw.get('msg'))] if kw.get('msg') is not None else None
        ok = src(kw.get('key')) == 'self.cookie_secret' and src(kw.get('digestmod')) in ('hashlib.sha256', 'sha256')
    ctx.check(ok, 'Q2', 'the expected cookie is HMAC-SHA256 keyed with the cookie secret', key=('Q2', 'hmac'),
              site=ctx.site(fi, B.ast), detail={'found': src(e)[:160]})
    want = ['%s.spi_i' % reqp, '%s.get_payload(Payload.Type.NONCE, encrypted).nonce' % reqp, 'self.peer_addr.packed']
    ctx.check(term is not None and sorted(term) == sorted(want) and len(term) == 3, 'Q2',
              'the cookie covers the initiator SPI of the request header, the request\'s nonce and the peer address',
              key=('Q2', 'term'), site=ctx.site(fi, B.ast), detail={'found': term, 'expected': want})
    recv = [s for s in (cp[0], cp[2]) if src(s).endswith('.notification_data')][0]
    base = recv.value
    lst = single_def(res, fi, base.value.id) if isinstance(base, ast.Subscript) and isinstance(base.value, ast.Name) else None
    ok = isinstance(base, ast.Subscript) and isinstance(base.slice, ast.Constant) and base.slice.value == 0 \
        and isinstance(lst, ast.Call) and callee_name(lst) == 'get_notifies' and src(lst.func.value) == reqp \
        and src(lst.args[0]).endswith('Type.COOKIE')
    ctx.check(ok, 'Q2', 'the comparison uses the whole data of the first COOKIE notification of the request',
              key=('Q2', 'received'), site=ctx.site(fi, B.ast))
    # secret provenance
    ctrl = prog.cls('ikesacontroller.IkeSaController')
    writes = []
    for f in prog.all_functions():
        for n in walk_no_nested(f.node):
            if isinstance(n, ast.Assign):
                for t in n.targets:
                    if isinstance(t, ast.Attribute) and t.attr == 'cookie_secret':
                        writes.append((f, n))
    ctx.floor('Q2 writes to cookie_secret', len(writes), 3)
    for f, n in writes:
        if f.qual == 'ikesacontroller.IkeSaController.__init__':
            ok = isinstance(n.value, ast.Call) and src(n.value.func) == 'os.urandom' and n.value.args \
                and isinstance(n.value.args[0], ast.Constant) and n.value.args[0].value >= 8
            ctx.check(ok, 'Q2', 'the controller draws its cookie secret once from os.urandom (>= 8 octets)',
                      key=('Q2', 'secret-source'), site=ctx.site(f, n))
        elif f.qual == 'ikesa.IkeSa.__init__':
            ctx.check(src(n.value) == 'cookie_secret', 'Q2', 'IkeSa keeps the secret it is given', key=('Q2', 'secret-kept'),
                      site=ctx.site(f, n))
        elif f.qual == 'ikesacontroller.IkeSaController.dispatch_message':
            ctx.check(src(n.value) == 'self.cookie_secret', 'Q2', 'a responder IKE_SA is armed with the controller\'s secret',
                      key=('Q2', 'secret-armed-with'), site=ctx.site(f, n))
        else:
            ctx.bad('Q2', ('Q2', 'secret-writer', f.qual), 'cookie_secret is written in %s' % f.qual, ctx.site(f, n))
    # address provenance (controller side checked by C16/D1: peer_addr=ip_address(peer_addr) of the datagram)
    ik = ctx.func('ikesa.IkeSa.__init__')
    ok = any(isinstance(n, ast.Assign) and src(n.targets[0]) == 'self.peer_addr' and src(n.value) == 'peer_addr'
             for n in walk_no_nested(ik.node))
    others = [f.qual for f in prog.cls('ikesa.IkeSa').methods.values() if f.name != '__init__' for n in walk_no_nested(f.node)
              if isinstance(n, ast.Assign) and any(src(t).endswith('.peer_addr') for t in n.targets)]
    ctx.check(ok and not others, 'Q2', 'IkeSa.peer_addr is the address given at construction and is never reassigned',
              key=('Q2', 'peer-addr'), site=ctx.site(ik, ik.node))
    dm = ctx.func('ikesacontroller.IkeSaController.dispatch_message')
    from .. import tq as _tq
    from ..sval import strip_ids as _strip
    DMV = ctx.sval(dm)
    ctors = DMV.calls_to(callee='new ikesa.IkeSa')
    ctx.floor('Q2 responder IkeSa construction', len(ctors), 1)
    for c in ctors:
        ctx.check(_strip(c.args.get('peer_addr', ('undef',))) == _strip(DMV.expr('ip_address(%s)' % dm.call_params()[2])), 'Q2',
                  'the responder IKE_SA is bound to the source address of the datagram', key=('Q2', 'peer-addr-arg'),
                  site=ctx.site(dm, c.node))
    ml = ctx.func('ikesacontroller.IkeSaController.main_loop')
    MLV = ctx.sval(ml)
    dcalls = MLV.calls_to(qual='ikesacontroller.IkeSaController.dispatch_message')
    ok = bool(dcalls)
    for c in dcalls:
        a = c.args.get(dm.call_params()[2], ('undef',))
        # recvfrom(..)[1][0]: the host part of the source address
        ok = ok and a[0] == 'index' and a[2] == ('const', 'int', 0) and a[1][0] == 'index' and a[1][2] == ('const', 'int', 1) \
            and _tq.is_call(a[1][1], 'method.recvfrom') and c.args.get(dm.call_params()[0]) == ('index', a[1][1], ('const', 'int', 0))
    ctx.check(ok, 'Q2', 'dispatch_message receives the host part of recvfrom()\'s source address (and that datagram)', key=('Q2', 'recvfrom-addr'),
              site=ctx.site(ml, ml.node))

    # ---------------------------------------------------------------- Q3
    ctx.check(esc.hier.is_sub('CookieRequired', 'IkeSaError'), 'Q3', 'CookieRequired is a protocol error (answered, not a crash)',
              key=('Q3', 'class'))
    preq = ctx.func('ikesa.IkeSa._process_request')
    gq = esc.add_exception_edges(preq)
    # the handler that takes a CookieRequired raised by the handlers: the first one, in order, whose class covers it
    hs = []
    for n in sorted([n for n in gq.nodes if n.kind == 'handler'], key=lambda n: n.ast.lineno):
        tys = ['BaseException'] if n.ast.type is None else [esc.hier.name_of(e, preq.module, preq.cls) for e in (
            n.ast.type.elts if isinstance(n.ast.type, ast.Tuple) else [n.ast.type])]
        if any(t and esc.hier.is_sub('CookieRequired', t) for t in tys) and n.ast.name and any(
                isinstance(x, ast.Call) and callee_name(x) == 'from_exception' for x in ast.walk(n.ast)):
            hs.append(n)
            break
    ctx.check(len(hs) == 1, 'Q3', '_process_request has a handler for protocol errors', key=('Q3', 'handler'),
              site=ctx.site(preq, preq.node))
    for h in hs:
        body = h.ast.body
        exn = h.ast.name
        notif = [n for n in body if isinstance(n, ast.Assign) and isinstance(n.value, ast.Call)
                 and callee_name(n.value) == 'from_exception' and [src(a) for a in n.value.args] == [exn]]
        resp = [n for n in body if isinstance(n, ast.Assign) and isinstance(n.value, ast.Call)
                and callee_name(n.value) == 'generate_response']
        ok = len(notif) == 1 and len(resp) == 1 and len(resp[0].value.args) == 2 and isinstance(resp[0].value.args[1], ast.List) \
            and [src(x) for x in resp[0].value.args[1].elts] == [src(notif[0].targets[0])] \
            and src(resp[0].value.args[0]).endswith('.exchange_type')
        ctx.check(ok, 'Q3', 'a refused request is answered with exactly one notification built from the exception, in the '
                  'request\'s exchange type', key=('Q3', 'single-notify'), site=ctx.site(preq, h.ast))
        dele = [n for n in body if isinstance(n, ast.Assign) and src(n.targets[0]) == 'self.state'
                and common.state_name(n.value) == 'DELETED']
        ctx.check(len(dele) == 1, 'Q3', 'the refused IKE_SA is marked DELETED', key=('Q3', 'deleted'), site=ctx.site(preq, h.ast))
    fe = ctx.func('message.PayloadNOTIFY.from_exception')
    FE = ctx.sval(fe)
    exn = fe.call_params()[0]
    note = FE.ret()
    from ..sval import NONE, strip_ids
    from .. import tq
    na = tq.args(note) if tq.is_call(note, 'new message.PayloadNOTIFY') else {}
    is_cookie = tq.eq_decider(FE.expr('type(%s)' % exn), ('global', 'message.CookieRequired'), True)
    ctx.check(common.notify_type_of(ctx, 'CookieRequired') == 'COOKIE', 'Q3', 'CookieRequired maps to the COOKIE notification',
              key=('Q3', 'table'), site=ctx.site(fe, fe.node))
    nd = common.notify_field_of(ctx, 'CookieRequired', 'notification_data')[1] or NONE
    ctx.check(strip_ids(nd) == strip_ids(FE.expr('%s.cookie' % exn)), 'Q3', 'the COOKIE notification carries the expected cookie as its data',
              key=('Q3', 'cookie-data'), site=ctx.site(fe, fe.node), detail={'found': tq.text(nd, 200)})
    ce = ctx.func('message.CookieRequired.__init__')
    ctx.check(any(isinstance(n, ast.Assign) and src(n.targets[0]) == 'self.cookie' and src(n.value) == 'cookie'
                  for n in walk_no_nested(ce.node)), 'Q3', 'CookieRequired keeps the cookie it is given', key=('Q3', 'exc-field'),
              site=ctx.site(ce, ce.node))
    common.parse_errors_propagate(ctx, 'Q3')
    common.deleted_observed(ctx, esc, 'Q3')
    # arming
    from ..typestate import States
    ts_states = States(prog)
    gd = esc.add_exception_edges(dm)
    arm = [n for n in gd.nodes if n.kind == 'stmt' and isinstance(n.ast, ast.Assign)
           and any(isinstance(t, ast.Attribute) and t.attr == 'cookie_secret' for t in n.ast.targets)]
    ctx.check(len(arm) == 1, 'Q3', 'dispatch_message arms the cookie secret on the new responder IKE_SA', key=('Q3', 'arm'),
              site=ctx.site(dm, dm.node))
    for a in arm:
        subj = src(a.ast.targets[0]).rsplit('.', 1)[0]
        pmn = [n for n, x in common.nodes_calling(ctx, dm, gd, common.calls_named('process_message'))]
        ctx.check(bool(pmn) and all(p.id in gd.reach([a]) and a.id not in gd.reach([p]) for p in pmn), 'Q3',
                  'the secret is armed before the request is processed', key=('Q3', 'arm-order'), site=ctx.site(dm, a.ast))
        apps = [n for n, x in common.nodes_calling(ctx, dm, gd, common.calls_named('append'))
                if src(x.func.value).endswith('ike_sas') and x.args and src(x.args[0]) == subj]
        ctx.check(bool(apps) and all(a.id in gd.reach([p]) and a.id not in gd.reach([gd.entry], blocked_nodes=[p]) for p in apps),
                  'Q3', 'the half-open count includes the new IKE_SA (registered before counting)', key=('Q3', 'count-includes-new'),
                  site=ctx.site(dm, a.ast))
        # the condition under which the store executes, as a value term: cookie_threshold < sum(1 for x in table if x.state < ESTABLISHED)
        from .. import tq
        from ..sval import strip_ids
        DM = ctx.sval(dm)
        st = [(t, v, pc) for t, v, pc, node, _ in DM.stores if node is a.ast]
        ok = len(st) == 1
        if ok:
            pc = [x for x in st[0][2] if not ((x[0][0] == 'cmp' and x[0][1] == '==' and x[1] and 'exchange_type' in tq.text(x[0])
                                               and 'IKE_SA_INIT' in tq.text(x[0])) or
                                              (x[0][0] == 'attr' and x[0][2] == 'is_request' and x[1]))]
            ok = len(pc) == 1 and pc[0][1] is True and pc[0][0][0] == 'cmp' and pc[0][0][1] == '<' \
                and pc[0][0][2] == ('attr', ('param', 'self'), 'cookie_threshold') and (tq.is_call(pc[0][0][3], 'builtins.sum') or tq.is_call(pc[0][0][3], 'builtins.len'))
            cnt = strip_ids(tq.args(pc[0][0][3]).get('#0', ('undef',))) if ok else None
            table = ('attr', ('param', 'self'), 'ike_sas')
            # sum(1 for x in T if C) and len([.. for x in T if C]) are the same count (what the comprehension collects is immaterial)
            ok = ok and cnt[0] == 'list' and len(cnt[1]) == 1 and cnt[1][0][0] == 'each' and cnt[1][0][2] == table \
                and (cnt[1][0][4] == ('const', 'int', 1) or (tq.is_call(pc[0][0][3], 'builtins.len')
                                                              and not (isinstance(cnt[1][0][4], tuple) and cnt[1][0][4][:1] == ('each',)))) and len(cnt[1][0][3]) == 1
            if ok:
                filt, pol = cnt[1][0][3][0]
                below = set()
                for name, val in ts_states.members.items():
                    def leaf(t, val=val):
                        if t == ('attr', ('elem', table, 0), 'state'):
                            return val
                        if t[0] == 'global':
                            v = DM.value_of(t)
                            if isinstance(v, int):
                                return v
                        raise tq.NoValue()
                    try:
                        if bool(tq.teval(filt, leaf)) == pol:
                            below.add(name)
                    except (tq.NoValue, Exception):
                        ok = False
                ok = ok and below == common.pre_auth_states(ctx, ts_states)
        ctx.check(ok, 'Q3', 'the secret is armed iff the number of table entries below ESTABLISHED exceeds cookie_threshold',
                  key=('Q3', 'threshold'), site=ctx.site(dm, a.ast))
    ci = ctx.func('ikesacontroller.IkeSaController.__init__')
    th = [n for n in walk_no_nested(ci.node) if isinstance(n, ast.Assign) and src(n.targets[0]) == 'self.cookie_threshold']
    ctx.check(len(th) == 1 and isinstance(th[0].value, ast.Constant) and isinstance(th[0].value.value, int)
              and th[0].value.value >= 0, 'Q3', 'cookie_threshold is a non-negative integer constant', key=('Q3', 'threshold-const'),
              site=ctx.site(ci, ci.node))

    # ---------------------------------------------------------------- Q4
    # the retry below edits the stored request (COOKIE first) and serialises it again: to_bytes must not hand back an earlier result
    from .c05 import to_bytes_is_fresh
    to_bytes_is_fresh(ctx, 'Q4')
    # a cookie placed first stays first when the same request is repeated once more for INVALID_KE_PAYLOAD (COOKIE, then INVALID_KE):
    # the retry sends the payload sequence of the stored request, in its order - not a list put together again around SA and KE
    hk = ctx.func('ikesa.IkeSa.handle_invalid_ke')
    HK = ctx.sval(hk)
    from ..sval import strip_ids as _sid
    from .. import tq
    gcalls = HK.calls_to(qual='ikesa.IkeSa.generate_request')
    ctx.floor('Q4 generate_request call in handle_invalid_ke', len(gcalls), 1)
    stored = ('attr', ('param', 'self'), 'request')

    def stored_sequence(t):
        if t[0] == 'cond' and len(t) == 4:
            return stored_sequence(t[2]) and stored_sequence(t[3])
        if tq.is_call(t, 'builtins.list') and len(t[3]) == 1:
            return stored_sequence(t[3][0][1])
        return t in (('attr', stored, 'payloads'), ('attr', stored, 'encrypted_payloads'))
    for c in gcalls:
        pt = _sid(c.args.get('payloads', ('undef',)))
        ctx.check(stored_sequence(pt), 'Q4', 'the INVALID_KE_PAYLOAD retry repeats the payload sequence of the stored request in its order '
                  '(a cookie placed first stays first)', key=('Q4', 'retry-order'), site=ctx.site(hk, c.node),
                  detail={'payloads': tq.text(pt, 300)})
    ir = ctx.func('ikesa.IkeSa.process_ike_sa_init_response')
    gi = esc.add_exception_edges(ir)
    ck = None
    for name, defs in res.local_defs(ir).items():
        if len(defs) == 1 and isinstance(defs[0], ast.Call) and callee_name(defs[0]) == 'get_notifies' \
                and src(defs[0].args[0]).endswith('Type.COOKIE') and src(defs[0].func.value) == ir.call_params()[0]:
            ck = name
    ctx.check(ck is not None, 'Q4', 'the initiator looks for a COOKIE notification in the IKE_SA_INIT response',
              key=('Q4', 'lookup'), site=ctx.site(ir, ir.node))
    if ck is None:
        return
    conds = [c for c in gi.nodes if c.kind == 'cond' and src(c.ast) == ck]
    ctx.check(len(conds) == 1, 'Q4', 'the retry is taken when a COOKIE notification is present', key=('Q4', 'branch'),
              site=ctx.site(ir, ir.node))
    for c in conds:
        tn = gi.reach([m for lab, m in c.succ if lab == 'T'], blocked_nodes=[c], follow_exc=False)
        branch = [n for n in gi.nodes if n.id in tn and n.id not in gi.reach([m for lab, m in c.succ if lab == 'F'],
                                                                             blocked_nodes=[c], follow_exc=False)]
        ins = [n for n in branch if n.kind == 'stmt' and isinstance(n.ast, ast.Expr) and isinstance(n.ast.value, ast.Call)
               and callee_name(n.ast.value) == 'insert']
        ok = len(ins) == 1 and src(ins[0].ast.value.func.value) == 'self.request.payloads' \
            and [src(a) for a in ins[0].ast.value.args] == ['0', ck + '[0]']
        ctx.check(ok, 'Q4', 'the received cookie is placed first in the same request object', key=('Q4', 'insert-first'),
                  site=ctx.site(ir, c.ast))
        rets = [n for n in branch if n.kind == 'stmt' and isinstance(n.ast, ast.Return)]
        ctx.check(len(rets) == 1 and src(rets[0].ast.value) == 'self.request', 'Q4', 'the retry returns the retained request itself',
                  key=('Q4', 'returns-request'), site=ctx.site(ir, c.ast))
        reset = [n for n in branch if n.kind == 'stmt' and isinstance(n.ast, ast.Assign) and src(n.ast.targets[0]) == 'self.my_msg_id'
                 and isinstance(n.ast.value, ast.Constant) and n.ast.value.value == 0]
        ctx.check(len(reset) == 1, 'Q4', 'the retry reuses Message ID 0', key=('Q4', 'msg-id'), site=ctx.site(ir, c.ast))
        der = [n for n in branch if n.kind == 'stmt' and isinstance(n.ast, ast.Assign)
               and src(n.ast.targets[0]) == 'self.ike_sa_init_req_data' and src(n.ast.value) == 'self.request.to_bytes()']
        ctx.check(len(der) == 1 and bool(ins) and der[0].id in gi.reach([ins[0]]) and ins[0].id not in gi.reach([der[0]]), 'Q4',
                  'the retained request bytes are re-derived after the cookie was inserted', key=('Q4', 'rederive'),
                  site=ctx.site(ir, c.ast))
        calls = set(callee_name(x) for n in branch for e in n.exprs() if e is not None for x in walk_no_nested(e)
                    if isinstance(x, ast.Call))
        ctx.check(not ({'from_group', 'generate_request', 'PayloadNONCE', 'handle_invalid_ke'} & calls) and not any(
            n.kind == 'stmt' and isinstance(n.ast, ast.Assign) and any(src(t) in ('self.dh', 'self.request') for t in n.ast.targets)
            for n in branch), 'Q4', 'the retry keeps the DH value, the nonce and the request (the cookie binds them)',
            key=('Q4', 'unchanged'), site=ctx.site(ir, c.ast))


MANIFEST = {
    'level': 'All-paths static decision on the responder: with a cookie secret armed, no proposal selection, nonce generation, '
             'DH computation, key derivation or store to the IKE_SA is reachable in the negotiation without the passing edge of '
             'the cookie comparison (blocked-edge reachability), the absent-cookie case takes the refusing edge, the refusal '
             'carries the expected cookie, is answered with exactly one COOKIE notification and leaves the IKE_SA DELETED and '
             'removed; the cookie term is HMAC-SHA256(secret, SPIi | Ni | source address) with secret and address provenance; '
             'arming order and threshold expression; shape of the initiator retry (same object, cookie first, bytes re-derived, '
             'Message ID 0, DH kept).',
    'note': 'Trusted: HMAC, resolver typing, effect catalogue. Declined: counts around the threshold as runtime values; cookie '
            'replay histories.',
    'technique': 'blocked-edge reachability/dominance + term extraction + provenance',
    'design_ref': 'DESIGN.md 3/C18',
}
MANIFEST['note'] += (' Also decided here (necessary conditions shared between properties or added after the independent '
                     'change rounds, DESIGN.md 8.7): Message.to_bytes keeps nothing (from C05), parse errors leave process_message, half-open states by name.')
MANIFEST['note'] += (' Round 10: the INVALID_KE_PAYLOAD retry hands generate_request the payload sequence of the stored request '
                     '(a cookie placed first stays first); the half-open count is read as a value term in either spelling '
                     '(sum(1 for ..) / len([..])).')
