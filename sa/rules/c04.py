"""C04 - Key material is derived exactly as RFC 7296 prescribes.

K1 (A6/A11) prf+ : Prf.prfplus is executed by the checker's *symbolic* interpreter (prf is an
         uninterpreted function, byte strings are sequences of symbolic atoms with lengths) for a
         range of output sizes and compared with the RFC 7296 2.13 term
         T1 = prf(K, S|0x01), Tn = prf(K, Tn-1|S|n), result = (T1|T2|...)[:size]; Prf.prf = HMAC(key, data).
K2       SKEYSEED = prf(Ni|Nr, g^ir) resp. prf(SK_d_old, g^ir|Ni|Nr), selected on old_sk_d.
K3       SK_* = prf+(SKEYSEED, Ni|Nr|SPIi|SPIr, 3*prf + 2*integ + 2*encr) split in the order
         SK_d|SK_ai|SK_ar|SK_ei|SK_er|SK_pi|SK_pr (format fields evaluated with distinct symbolic sizes).
K4       KEYMAT = prf+(SK_d, [g^ir|]Ni|Nr, 2*integ + 2*encr) split as ei|ai|er|ar; encr = 0 unless ESP; DH
         secret prepended iff the chosen proposal has a DH transform, on both roles; nonce order.
K5       size tables of PRF / INTEG / cipher against RFC 2404/4868/3602; transform ids are IANA's.
K6       the five MODP primes equal the RFC 3526 formula 2^n - 2^(n-64) - 1 + 2^64*(floor(2^(n-130) pi) + c),
         computed by the checker with an integer Machin series; generator 2; ids 14-18.
K7       ECDH curves per RFC 5903, fixed-width big-endian x|y, split at the coordinate length; MODP public
         value fixed-width big-endian; from_group falls back to ECDH on KeyError only.
"""
import ast
import re

from ..finite import Interp
from ..model import AnalysisError, namedtuple_fields, src, walk_no_nested
from ..sval import NONE, const, same, strip_ids
from ..terms import callee_name, calls_in, compare_parts, flatten_add, inline, kwargs_of, single_def
from .. import tq
from . import common

EXPLANATION = ('static analysis: symbolic interpretation of prf+ (uninterpreted prf, symbolic byte strings) against the RFC '
               'term for many output sizes, term extraction of SKEYSEED / SK_* / KEYMAT with their split formats evaluated over '
               'distinct symbolic sizes, table conformance of sizes and identifiers, and recomputation of the MODP primes from '
               'the RFC 3526 definition')
ASSUMPTIONS = [
    'hmac.HMAC, OpenSSL AES/DH/ECDH and hashlib digests are correct (trusted base); numeric agreement with a second '
    'implementation on concrete inputs is differential testing and is declined',
    'the width of the shared secret returned by OpenSSL (leading zero octets) is library behaviour',
]

RFC_ORDER = ['sk_d', 'sk_ai', 'sk_ar', 'sk_ei', 'sk_er', 'sk_pi', 'sk_pr']
MODP_C = {14: (2048, 124476), 15: (3072, 1690314), 16: (4096, 240904), 17: (6144, 929484), 18: (8192, 4743158)}


# ------------------------------------------------------------------------------- symbolic prf+
class Sym(Interp):
    """byte strings are tuples of atoms; an atom is (tag, payload..., length)"""
    H = 3

    def stmt(self, st):
        if isinstance(st, ast.While):
            guard = 0
            while self.ev(st.test):
                guard += 1
                if guard > 64:
                    raise AnalysisError('symbolic prf+: loop does not terminate for size %r' % self.env.get('size'))
                self.block(st.body)
            return
        if isinstance(st, ast.Expr) and isinstance(st.value, ast.Call) and isinstance(st.value.func, ast.Attribute) \
                and st.value.func.attr in ('append', 'extend') and isinstance(st.value.func.value, ast.Name) \
                and isinstance(self.env.get(st.value.func.value.id), list) and len(st.value.args) == 1:
            v = self.ev(st.value.args[0])          # the output kept as a list of blocks
            if st.value.func.attr == 'append':
                self.env[st.value.func.value.id].append(v)
            else:
                self.env[st.value.func.value.id].extend(v)
            return
        return super().stmt(st)

    def ev(self, e):
        if isinstance(e, ast.List):
            return [self.ev(x) for x in e.elts]
        if isinstance(e, ast.Call) and isinstance(e.func, ast.Attribute) and e.func.attr == 'join' and len(e.args) == 1 and not e.keywords:
            sep = self.ev(e.func.value)
            parts = self.ev(e.args[0])
            if sep == () and isinstance(parts, list):
                out = ()
                for p_ in parts:
                    out += p_
                return out
        if isinstance(e, ast.Call):
            f = e.func
            if isinstance(f, ast.Name) and f.id in ('bytes', 'bytearray') and not e.args:
                return ()
            if isinstance(f, ast.Constant):
                pass
            if isinstance(f, ast.Name) and f.id == 'len':
                v = self.ev(e.args[0])
                return sum(a[-1] for a in v)
            if isinstance(f, ast.Attribute) and f.attr == 'prf' and src(f.value) == 'self' and len(e.args) + len(e.keywords) == 2:
                ps = self.prog.func('crypto.Prf.prf').call_params()
                b = {ps[i]: a for i, a in enumerate(e.args)}
                b.update({k.arg: k.value for k in e.keywords})
                if set(b) == set(ps[:2]):
                    return (('prf', self.ev(b[ps[0]]), self.ev(b[ps[1]]), self.H),)
            if isinstance(f, ast.Attribute) and f.attr == 'to_bytes' and len(e.args) >= 2:
                n = self.ev(f.value)
                return (('int', n, self.ev(e.args[0]), self.ev(e.args[1]), self.ev(e.args[0])),)
        if isinstance(e, ast.Constant) and isinstance(e.value, bytes) and e.value == b'':
            return ()
        if isinstance(e, ast.Subscript) and isinstance(e.slice, ast.Slice) and e.slice.lower is None and e.slice.step is None:
            v = self.ev(e.value)
            return ('trunc', v, self.ev(e.slice.upper))
        return super().ev(e)


def rfc_prfplus(key, seed, size, H):
    out = ()
    t = ()
    i = 1
    while sum(a[-1] for a in out) < size:
        t = (('prf', key, t + seed + (('int', i, 1, 'big', 1),), H),)
        out += t
        i += 1
    return ('trunc', out, size)


def machin_pi(bits):
    """floor(pi * 2^bits) by Machin's formula in integer arithmetic"""
    guard = 64
    one = 1 << (bits + guard)

    def arctan_inv(x):
        total = term = one // x
        x2 = x * x
        n = 1
        while term:
            term //= x2
            n += 2
            total += (-1 if (n // 2) % 2 else 1) * (term // n)
        return total
    pi = 4 * (4 * arctan_inv(5) - arctan_inv(239))
    return pi >> guard


def fmt_fields(fmt_call, env, prog, fi):
    """sizes of the fields of a struct format built by 'x'.format(a, b, c), evaluated in env"""
    if not (isinstance(fmt_call, ast.Call) and isinstance(fmt_call.func, ast.Attribute) and fmt_call.func.attr == 'format'
            and isinstance(fmt_call.func.value, ast.Constant)):
        raise AnalysisError('key split: struct format is not a constant .format() call: %s' % src(fmt_call)[:60])
    text = fmt_call.func.value.value
    args = [Interp(prog, fi, env).ev(a) for a in fmt_call.args]
    if not text.startswith('>'):
        raise AnalysisError('key split: format %r is not big-endian/packed' % text)
    fields = re.findall(r'\{(\d*)\}s', text[1:])
    if ''.join('{%s}s' % f for f in fields) != text[1:]:
        raise AnalysisError('key split: unexpected format %r' % text)
    return [args[int(f) if f else i] for i, f in enumerate(fields)]


def _size_leaf(env):
    def leaf(t):
        if t[0] == 'attr' and t[2] == 'key_size' and tq.is_call(t[1]):
            kind = {'new crypto.Cipher': 'encr', 'new crypto.Integrity': 'integ', 'new crypto.Prf': 'prf'}.get(t[1][1])
            if kind in env:
                return env[kind]
        if t[0] == 'attr' and t[2] == 'protocol_id':
            return env.get('proto', 'ESP')
        if t[0] == 'global' and t[1].endswith('Protocol.ESP'):
            return 'ESP'
        raise tq.NoValue()
    return leaf


def fmt_sizes(ctx, fi, unpack_call, env):
    """field sizes of struct.unpack('>{0}s{1}s..'.format(a, b, ..), ..) (a sa.sval CallRec) when the key size of the
    negotiated cipher / integrity / prf object is env['encr'] / env['integ'] / env['prf'] and the SA is ESP"""
    f = unpack_call.args.get('#0')
    if f is not None and not (tq.is_call(f, 'method.format') and f[2][0] == 'const' and isinstance(f[2][2], str)):
        # a format put together at run time ('>' + ''.join(f'{n}s' for n in sizes)): the string it is for these sizes
        try:
            text = tq.teval(f, _size_leaf(env))
        except (tq.NoValue, Exception):
            return None
        if isinstance(text, str) and re.fullmatch(r'>(\d+s)+', text):
            return [int(x) for x in re.findall(r'(\d+)s', text)]
        return None
    if f is None:
        return None
    text = f[2][2]
    fields = re.findall(r'\{(\d*)\}s', text[1:])
    if not text.startswith('>') or ''.join('{%s}s' % x for x in fields) != text[1:]:
        return None
    leaf = _size_leaf(env)
    try:
        args = [tq.teval(v, leaf) for k, v in f[3]]
    except tq.NoValue:
        return None
    try:
        return [args[int(x) if x else i] for i, x in enumerate(fields)]
    except IndexError:
        return None


class Split(object):
    """The consecutive pieces one octet string is cut into, however the code cuts it: struct.unpack('>{0}s{1}s..'.format(..), src)
    whose results are the pieces, or slices src[0:a], src[a:a+b], ...  `terms` are the pieces in the order claimed."""

    def __init__(self, V, terms):
        self.kind = self.src = self.up = None
        self.terms = list(terms)
        self.holder = ('tuple', tuple(self.terms))
        if not terms or any(t is None for t in terms):
            return
        first = terms[0]
        if first[0] == 'index' and tq.is_call(first[1], 'struct.unpack'):
            U = first[1]
            ups = [c for c in V.calls if c.term == U]
            if ups and all(t == ('index', U, const(i)) for i, t in enumerate(terms)):
                self.kind, self.up, self.src = 'unpack', ups[0], ups[0].args.get('#1', NONE)
                self.holder = U
        elif first[0] == 'slice':
            if all(t[0] == 'slice' and t[1] == first[1] and t[4] in (NONE, const(1)) and t[3] != NONE for t in terms):
                self.kind, self.src = 'slice', first[1]

    def sizes(self, ctx, fi, env):
        """the widths of the pieces under env, or None when the pieces are not consecutive from offset 0"""
        if self.kind == 'unpack':
            got = fmt_sizes(ctx, fi, self.up, env)
            return got if got is not None and len(got) == len(self.terms) else None
        if self.kind != 'slice':
            return None
        leaf = _size_leaf(env)
        out, at = [], 0
        try:
            for t in self.terms:
                lo = 0 if t[2] == NONE else tq.teval(t[2], leaf)
                hi = tq.teval(t[3], leaf)
                if not isinstance(lo, int) or not isinstance(hi, int) or lo != at or hi < lo:
                    return None
                out.append(hi - lo)
                at = hi
        except tq.NoValue:
            return None
        return out


def prf_is_hmac(ctx, rule):
    """prf(key, data) is the library's HMAC of data under key with the negotiated digest - in particular with HMAC's own treatment of
    keys of, above and below the block size (shared with C02: the AUTH value and the key pad are prf outputs)"""
    pf = ctx.func('crypto.Prf.prf')
    PF = ctx.sval(pf)
    pps = pf.call_params()
    common.expect_term(ctx, rule, PF, PF.ret(), 'HMAC(%s, %s, digestmod=self.hasher).digest()' % (pps[0], pps[1]),
                       'prf(key, data) = HMAC(key, data) with the negotiated digest', (rule, 'prf'), ctx.site(pf, pf.node))


def ike_keyring_split(ctx, rule):
    """the seven SK_* keys are consecutive pieces of the prf+ output with the widths prf | integ integ | encr encr | prf prf (shared with
    C02: SK_pi / SK_pr key the identity hash inside the signed octets)"""
    gk = ctx.func('ikesa.IkeSa.generate_ike_sa_key_material')
    V = ctx.sval(gk)
    kr = V.ret()
    a = tq.args(kr) if tq.is_call(kr, 'namedtuple.Keyring') else {}
    sp = Split(V, [a.get(n) for n in RFC_ORDER])
    sizes = sp.sizes(ctx, gk, {'prf': 5, 'integ': 7, 'encr': 11}) if sp.kind is not None else None
    ctx.check(sizes == [5, 7, 7, 11, 11, 5, 5], rule, 'the key material is cut as SK_d(prf) SK_ai SK_ar (integ) SK_ei SK_er (encr) SK_pi SK_pr (prf)',
              key=(rule, 'ike-split-widths'), site=ctx.site(gk, gk.node), detail={'widths for prf=5, integ=7, encr=11': sizes})


def run(ctx):
    prog, res = ctx.prog, ctx.res

    # ---------------------------------------------------------------- K1
    pp = ctx.func('crypto.Prf.prfplus')
    ps = pp.call_params()
    ctx.require(len(ps) == 3, 'anchor vanished: Prf.prfplus(key, seed, size)')
    K, S = (('K', 5),), (('S', 7),)
    bad = None
    n = 0
    for H in (1, 3):
        Sym.H = H
        for size in range(0, 4 * H + 2):
            it = Sym(prog, pp, {ps[0]: K, ps[1]: S, ps[2]: size})
            got = it.run()
            want = rfc_prfplus(K, S, size, H)
            n += 1
            if got != want and bad is None:
                bad = (H, size, repr(got)[:300], repr(want)[:300])
    ctx.check(bad is None, 'K1', 'prf+ equals T1 = prf(K, S|0x01), Tn = prf(K, Tn-1|S|n), truncated to the requested size, for %d '
              '(digest size, output size) combinations under symbolic interpretation' % n, key=('K1', 'prfplus'),
              site=ctx.site(pp, pp.node), detail={'digest,size,got,expected': bad})
    prf_is_hmac(ctx, 'K1')

    # ---------------------------------------------------------------- K2 / K3
    gk = ctx.func('ikesa.IkeSa.generate_ike_sa_key_material')
    prm = gk.call_params()
    ctx.require(prm[:7] == ['ike_proposal', 'nonce_i', 'nonce_r', 'spi_i', 'spi_r', 'shared_secret', 'old_sk_d'],
                'parameters of generate_ike_sa_key_material changed: %s' % prm)
    V = ctx.sval(gk)
    site = ctx.site(gk, gk.node)
    kr = V.ret()
    a = tq.args(kr) if tq.is_call(kr, 'namedtuple.Keyring') else {}
    sp = Split(V, [a.get(n) for n in RFC_ORDER])
    ctx.check(sp.kind is not None, 'K3',
              'the Keyring is filled with the split results in RFC order SK_d|SK_ai|SK_ar|SK_ei|SK_er|SK_pi|SK_pr', key=('K3', 'keyring-fill'),
              site=site, detail={'returned': tq.text(kr, 500)})
    kf = namedtuple_fields(prog, 'ikesa', 'Keyring')
    ctx.check(kf == RFC_ORDER, 'K3', 'Keyring fields are declared in RFC order', key=('K3', 'keyring-fields'), detail={'found': kf})
    if sp.kind is None:
        return
    U = sp.holder
    km = sp.src
    PRF = V.expr('Prf(ike_proposal.get_transform(Transform.Type.PRF))')
    ok = tq.is_call(km, 'crypto.Prf.prfplus') and same(km[2], PRF)
    ctx.check(ok, 'K3', 'the split consumes prf+ output computed with the PRF of the negotiated PRF transform', key=('K3', 'prfplus-call'),
              site=site, detail={'split input': tq.text(km, 300)})
    if not ok:
        return
    ka = tq.args(km)
    skeyseed = ka.get(pp.call_params()[0], NONE)
    old = ('param', 'old_sk_d')
    initial = tq.restrict(skeyseed, tq.truthy_decider(old, False))
    rekey = tq.restrict(skeyseed, tq.truthy_decider(old, True))
    ctx.check(initial != rekey and not tq.contains(initial, old), 'K2', 'SKEYSEED is selected on the presence of the old SK_d',
              key=('K2', 'branch'), site=site, detail={'SKEYSEED': tq.text(skeyseed, 400)})
    common.expect_term(ctx, 'K2', V, initial, 'Prf(ike_proposal.get_transform(Transform.Type.PRF)).prf(nonce_i + nonce_r, shared_secret)',
                       'initial SKEYSEED = prf(Ni | Nr, g^ir)', ('K2', 'initial'), site)
    # RFC 7296 2.18: the rekey exchange belongs to the old IKE_SA, so this prf is the OLD IKE_SA's (the two may have negotiated different
    # PRFs); the PRF of the new IKE_SA takes over from prf+ on (K3).  The old PRF travels with the old SK_d.
    if 'old_prf' not in prm:
        new_prf_form = V.expr('Prf(ike_proposal.get_transform(Transform.Type.PRF)).prf(old_sk_d, shared_secret + nonce_i + nonce_r)')
        if same(rekey, new_prf_form):
            ctx.bad('K2', ('K2', 'rekey'), 'rekey SKEYSEED is computed with the PRF negotiated for the NEW IKE_SA; RFC 7296 2.18 prescribes the '
                    'PRF of the old IKE_SA (the keys differ from a conformant peer\'s whenever the rekey selects another PRF)', site,
                    {'found': tq.text(rekey, 300)})
            return
        ctx.require(False, 'anchor vanished: generate_ike_sa_key_material(..., old_sk_d, old_prf) - the PRF of the IKE_SA being '
                    'rekeyed is not an input of the derivation')
    oprf = ('param', 'old_prf')
    rekey_old = tq.restrict(rekey, tq.truthy_decider(oprf, True))
    want = [V.expr('old_prf.prf(old_sk_d, shared_secret + nonce_i + nonce_r)'),
            V.expr('(old_prf or Prf(ike_proposal.get_transform(Transform.Type.PRF))).prf(old_sk_d, shared_secret + nonce_i + nonce_r)')]
    ctx.check(any(same(rekey_old, w) for w in want), 'K2',
              'rekey SKEYSEED = prf(SK_d(old), g^ir | Ni | Nr) with the PRF of the old IKE_SA (RFC 7296 2.18)', key=('K2', 'rekey'), site=site,
              detail={'found': tq.text(rekey_old, 400)})
    # ... and the callers hand over the PRF of the IKE_SA being rekeyed wherever they hand over its SK_d
    SELF = ('param', 'self')
    own_prf = ('attr', ('attr', SELF, 'my_crypto'), 'prf')
    own_skd = ('attr', ('attr', SELF, 'ike_sa_keyring'), 'sk_d')
    npass = 0
    for q in ('ikesa.IkeSa._process_ike_sa_negotiation_request', 'ikesa.IkeSa.process_ike_sa_negotiation_response'):
        fi = ctx.func(q)
        S = ctx.sval(fi)
        for c in S.calls_to(qual='ikesa.IkeSa.generate_ike_sa_key_material'):
            npass += 1
            ctx.check(c.args.get('old_sk_d') == ('param', 'old_sk_d') and c.args.get('old_prf') == oprf, 'K2',
                      '%s passes the old SK_d and the old PRF it was given on to the derivation' % fi.name,
                      key=('K2', 'old-prf-passed', q), site=ctx.site(fi, c.node),
                      detail={'old_sk_d': tq.text(c.args.get('old_sk_d', NONE)), 'old_prf': tq.text(c.args.get('old_prf', NONE))})
    ctx.floor('K2 derivation calls in the negotiation functions', npass, 2, rule='K2')
    nrek = 0
    for q in ('ikesa.IkeSa.process_create_child_sa_request', 'ikesa.IkeSa.process_create_child_sa_response',
              'ikesa.IkeSa.process_ike_sa_init_request', 'ikesa.IkeSa.process_ike_sa_init_response'):
        fi = ctx.func(q)
        S = ctx.sval(fi)
        for c in S.calls_to(qual='ikesa.IkeSa._process_ike_sa_negotiation_request') + S.calls_to(qual='ikesa.IkeSa.process_ike_sa_negotiation_response'):
            skd, oprf_a = c.args.get('old_sk_d', NONE), c.args.get('old_prf', NONE)
            if skd in (None, NONE):
                ctx.check(oprf_a in (None, NONE), 'K2', '%s: an initial derivation has neither an old SK_d nor an old PRF' % fi.name,
                          key=('K2', 'old-prf-initial', q), site=ctx.site(fi, c.node))
            else:
                nrek += 1
                ctx.check(strip_ids(skd) == own_skd and strip_ids(oprf_a) == own_prf, 'K2',
                          '%s: the rekey derivation gets SK_d and PRF of this (the old) IKE_SA' % fi.name,
                          key=('K2', 'old-prf-caller', q), site=ctx.site(fi, c.node),
                          detail={'old_sk_d': tq.text(skd), 'old_prf': tq.text(oprf_a)})
    ctx.floor('K2 rekey derivations (responder and initiator)', nrek, 2, rule='K2')
    # ... and what the two negotiation functions put into those operands (Ni | Nr | SPIi | SPIr: the responder's SPI is the one of the
    # response header - of the SA payload only on a rekey; shared with C01 O3)
    from .c01 import derivation_sites
    derivation_sites(ctx, 'K3')
    common.expect_term(ctx, 'K3', V, ka.get(pp.call_params()[1]), 'nonce_i + nonce_r + spi_i + spi_r',
                       'SK_* seed material = prf+(SKEYSEED, Ni | Nr | SPIi | SPIr, ...)', ('K3', 'seed'), site)
    env = {'prf': 5, 'integ': 7, 'encr': 11}
    sizes = sp.sizes(ctx, gk, env)
    total = key_total(ka.get(pp.call_params()[2], NONE), env)
    ctx.check(total == 3 * 5 + 2 * 7 + 2 * 11, 'K3', 'requested length = 3*prf + 2*integ + 2*encr key sizes', key=('K3', 'length'),
              site=site, detail={'found': tq.text(ka.get(pp.call_params()[2], NONE), 300)})
    ctx.check(sizes == [5, 7, 7, 11, 11, 5, 5] and sum(sizes) == total, 'K3',
              'split widths: SK_d(prf) SK_ai SK_ar (integ) SK_ei SK_er (encr) SK_pi SK_pr (prf), covering the whole output',
              key=('K3', 'split-order'), site=site, detail={'sizes': sizes})
    objs_ok = all(tq.contains(U, V.expr('%s(ike_proposal.get_transform(Transform.Type.%s))' % (c, t)))
                  for c, t in (('Prf', 'PRF'), ('Integrity', 'INTEG'), ('Cipher', 'ENCR')))
    ctx.check(objs_ok, 'K3', 'PRF, integrity and cipher sizes come from the negotiated transforms of their type',
              key=('K3', 'objects'), site=site)

    # ---------------------------------------------------------------- K4
    gc = ctx.func('ikesa.IkeSa.generate_child_sa_key_material')
    cp_ = gc.call_params()
    G = ctx.sval(gc)
    site = ctx.site(gc, gc.node)
    kr = G.ret()
    a = tq.args(kr) if tq.is_call(kr, 'namedtuple.Keyring') else {}
    sp = Split(G, [a.get(n) for n in ('sk_ei', 'sk_ai', 'sk_er', 'sk_ar')])
    U = sp.holder if sp.kind is not None else None
    ctx.check(U is not None and [a.get(n) for n in ('sk_d', 'sk_pi', 'sk_pr')] == [NONE, NONE, NONE], 'K4',
              'KEYMAT split order SK_ei|SK_ai|SK_er|SK_ar, each stored at the like-named Keyring position', key=('K4', 'keyring-fill'),
              site=site, detail={'returned': tq.text(kr, 500)})
    if U is not None:
        km = sp.src
        ok = tq.is_call(km, 'crypto.Prf.prfplus') and same(km[2], G.expr('self.my_crypto.prf'))
        ka = tq.args(km) if ok else {}
        # what the callee uses as key, seed and proposal - as terms over its parameters; the call sites are judged with their
        # arguments put in (so it does not matter how the three are passed: one by one, inside the ChildSa, read from self)
        key_t, seed_t = strip_ids(ka.get(pp.call_params()[0], NONE)), strip_ids(ka.get(pp.call_params()[1], NONE))
        ctx.check(ok and key_t != NONE and seed_t != NONE, 'K4', 'KEYMAT = prf+(SK_d, keyseed, ...) with the IKE_SA\'s PRF', key=('K4', 'prfplus'),
                  site=site, detail={'split input': tq.text(km, 300)})
        for proto, want in (('ESP', [11, 7, 11, 7]), ('AH', [0, 7, 0, 7])):
            env = {'integ': 7, 'encr': 11, 'proto': proto}
            sizes = sp.sizes(ctx, gc, env)
            total = key_total(ka.get(pp.call_params()[2], NONE), env) if ok else None
            ctx.check(sizes == want and total == sum(want), 'K4', '%s: requested length and split widths are encr|integ|encr|integ%s' % (
                proto, ' with no encryption key' if proto == 'AH' else ''), key=('K4', 'split-order', proto), site=site,
                detail={'sizes': sizes, 'total': total})
        integs = [x for x in tq.find(strip_ids(U), lambda y: tq.is_call(y, 'new crypto.Integrity'))]
        ciphs = [x for x in tq.find(strip_ids(U), lambda y: tq.is_call(y, 'new crypto.Cipher'))]

        def source(objs, ttype):
            """the proposal term P when every object is built as Cls(P.get_transform(Transform.Type.<ttype>))"""
            ps = set()
            for o in objs:
                a_ = list(tq.args(o).values())
                if len(a_) == 1 and tq.is_call(a_[0]) and isinstance(a_[0][1], str) and a_[0][1].endswith('get_transform') \
                        and list(tq.args(a_[0]).values()) == [('global', 'message.Transform.Type.' + ttype)]:
                    ps.add(a_[0][2])
                else:
                    ps.add(None)
            return ps.pop() if len(ps) == 1 else None
        prop_i, prop_c = source(integs, 'INTEG'), source(ciphs, 'ENCR')
        ctx.check(prop_i is not None and prop_i == prop_c, 'K4',
                  'CHILD key sizes come from the INTEG and ENCR transforms of one proposal', key=('K4', 'sizes'), site=site,
                  detail={'integrity from': tq.text(prop_i) if prop_i else None, 'cipher from': tq.text(prop_c) if prop_c else None})
        prop_t = prop_i if prop_i is not None and prop_i == prop_c else None
    # call sites: keyseed and sk_d
    nsites = 0
    for q, role in (('ikesa.IkeSa._process_create_child_sa_negotiation_req', 'responder'),
                    ('ikesa.IkeSa._process_create_child_sa_negotiation_res', 'initiator')):
        fi = ctx.func(q)
        S = ctx.sval(fi)
        msg = fi.call_params()[0]
        # RFC 7296 2.17: "initiator" and "responder" of the KEYMAT split are those of THIS exchange (a CHILD_SA created or rekeyed by
        # the original responder has that peer as initiator): the role handed to the kernel installation is fixed by the function,
        # never read from the IKE_SA
        inst = S.calls_to(qual='xfrm.Xfrm.create_child_sa')
        ctx.check(len(inst) >= 1 and all(c_.args.get('is_initiator') == const(role == 'initiator') for c_ in inst), 'K4',
                  '%s: the keys are handed to the kernel with the role of this exchange (is_initiator=%s), whatever the role in the IKE_SA'
                  % (fi.name, role == 'initiator'), key=('K4', q, 'exchange-role'), site=ctx.site(fi, fi.node),
                  detail={'found': [tq.text(c_.args.get('is_initiator', NONE), 80) for c_ in inst]})
        for c in S.calls_to(qual=gc.qual):
            nsites += 1
            from ..sval import subst_params
            b = {k: v for k, v in c.args.items()}
            st = ctx.site(fi, c.node)
            from ..sval import refold
            at_site = lambda t: refold(subst_params(t, b)) if t is not None else NONE      # noqa: E731
            common.expect_term(ctx, 'K4', S, at_site(key_t) if U is not None else NONE, 'self.ike_sa_keyring.sk_d',
                               '%s: KEYMAT is keyed with the current IKE_SA\'s SK_d' % fi.name, ('K4', q, 'sk_d'), st)
            ks = at_site(seed_t) if U is not None else NONE
            prop = at_site(prop_t) if U is not None and prop_t is not None else NONE
            # the proposal whose transforms size the keys is the one this negotiation chose: on the responder what
            # _select_best_sa_proposal returned, on the initiator the proposal of the response's SA payload
            if role == 'responder':
                chosen_ok = tq.is_call(strip_ids(prop), 'ikesa.IkeSa._select_best_sa_proposal')
            else:
                chosen_ok = tq.match(S.expr('%s.get_payload(Payload.Type.SA, True).proposals[0]' % msg), prop) is not None
            ctx.check(chosen_ok, 'K4', '%s: the key sizes are those of the proposal this negotiation chose' % fi.name,
                      key=('K4', q, 'chosen-proposal'), site=st, detail={'sized from': tq.text(prop, 200)})
            has_dh = ('call', 'message.Proposal.get_transforms', strip_ids(prop), (('type', ('global', 'message.Transform.Type.DH')),))

            def dh(v):
                def decide(test):
                    return v if strip_ids(test) == has_dh else None
                return decide

            def auth(v):
                return tq.eq_decider(('attr', ('param', msg), 'exchange_type'), ('global', 'message.Message.Exchange.IKE_AUTH'), v)
            nodh, withdh = tq.restrict(ks, dh(False)), tq.restrict(ks, dh(True))
            ctx.check(nodh != withdh and withdh[0] == 'add' and tuple(withdh[1][1:]) == (nodh[1] if nodh[0] == 'add' else (nodh,))
                      and withdh[1][0][0] == 'attr' and withdh[1][0][2] == 'shared_secret', 'K4',
                      '%s: g^ir is prepended exactly when the chosen proposal has a DH transform' % fi.name, key=('K4', q, 'dh-prefix'),
                      site=st, detail={'keyseed': tq.text(ks, 500)})
            for ex_auth in (True, False):
                t = tq.restrict(nodh, auth(ex_auth))
                parts = list(t[1]) if t[0] == 'add' else []
                ok = len(parts) == 2 and all(x[0] == 'attr' and x[2] == 'nonce' for x in parts)
                if ok:
                    ni, nr = parts[0][1], parts[1][1]
                    if ex_auth:
                        ok = tq.match(S.expr('Message.parse(self.ike_sa_init_req_data).get_payload(Payload.Type.NONCE)'), ni) is not None \
                            and tq.match(S.expr('Message.parse(self.ike_sa_init_res_data).get_payload(Payload.Type.NONCE)'), nr) is not None
                    elif role == 'responder':
                        ok = tq.match(S.expr('%s.get_payload(Payload.Type.NONCE, True)' % msg), ni) is not None \
                            and tq.is_call(nr, 'new message.PayloadNONCE') and not tq.args(nr) \
                            and any(x[0] == 'list' and any(nr == y or (isinstance(y, tuple) and nr in y) for y in x[1])
                                    for _, x, _ in S.returns)
                    else:
                        ok = tq.match(S.expr('self.request.get_payload(Payload.Type.NONCE, True)'), ni) is not None \
                            and tq.match(S.expr('%s.get_payload(Payload.Type.NONCE, True)' % msg), nr) is not None
                ctx.check(ok, 'K4', '%s, %s: keyseed = Ni | Nr with Ni from the request and Nr from the response of %s' % (
                    fi.name, 'IKE_AUTH' if ex_auth else 'CREATE_CHILD_SA', 'the retained IKE_SA_INIT messages' if ex_auth else 'this exchange'),
                    key=('K4', q, 'nonces', 'auth' if ex_auth else 'child'), site=st, detail={'keyseed': tq.text(t, 400)})
    ctx.floor('K4 KEYMAT derivation sites', nsites, 2)

    # g^ir in SKEYSEED / KEYMAT is computed with the private value of the exchange it belongs to: the DH object of our own outstanding
    # request is not overwritten while the peer's request is answered
    from .c01 import dh_writers
    dh_writers(ctx, 'K4')
    # ... and the KEYMAT slices are what the kernel gets: the algorithm structure carries the whole key with its length in bits
    from .c14 import check_algo
    check_algo(ctx, 'K4')

    # ---------------------------------------------------------------- K5
    check_tables(ctx)
    # ---------------------------------------------------------------- K6
    check_primes(ctx)
    # ---------------------------------------------------------------- K7
    check_ecdh(ctx)


def key_total(t, env):
    def leaf(x):
        if x[0] == 'attr' and x[2] == 'key_size' and tq.is_call(x[1]):
            kind = {'new crypto.Cipher': 'encr', 'new crypto.Integrity': 'integ', 'new crypto.Prf': 'prf'}.get(x[1][1])
            if kind in env:
                return env[kind]
        if x[0] == 'attr' and x[2] == 'protocol_id':
            return env.get('proto', 'ESP')
        if x[0] == 'global' and x[1].endswith('Protocol.ESP'):
            return 'ESP'
        raise tq.NoValue()
    try:
        return tq.teval(t, leaf)
    except (tq.NoValue, Exception):
        return None


def check_tables(ctx):
    prog = ctx.prog
    prf = prog.cls('crypto.Prf')
    d = prf.lookup_attr('_digestmod_dict')
    ctx.require(isinstance(d, ast.Dict), 'anchor vanished: Prf._digestmod_dict')
    have = {int(prog.const_eval(k, prf.module, prf)): src(v) for k, v in zip(d.keys, d.values)}
    want = {2: 'hashlib.sha1', 5: 'hashlib.sha256', 7: 'hashlib.sha512'}
    for k, v in want.items():
        ctx.check(have.get(k) == v, 'K5', 'PRF transform %d is HMAC with %s' % (k, v), key=('K5', 'prf', k), site='crypto.py:%s' % d.lineno,
                  detail={'found': have.get(k)})
    ks, hs = ctx.func('crypto.Prf.key_size'), ctx.func('crypto.Prf.hash_size')
    digest = 'self.hasher().digest_size'

    def size_term(fi):
        t = ctx.sval(fi).ret()
        # a property that returns another size property of the same object is looked through
        for _ in range(3):
            if t[0] == 'attr' and t[1] == ('param', 'self') and fi.cls.lookup(t[2]) is not None and fi.cls.lookup(t[2]).is_property:
                t = ctx.sval(fi.cls.lookup(t[2])).ret()
        return t
    want_sizes = {'sha1': 20, 'sha256': 32, 'sha512': 64}
    ctx.check(common.digest_size_table(ctx, ks) == want_sizes and common.digest_size_table(ctx, hs) == want_sizes,
              'K5', 'PRF key size = output size = digest size', key=('K5', 'prf-sizes'), site=ctx.site(hs, hs.node),
              detail={'key_size': common.digest_size_table(ctx, ks), 'hash_size': common.digest_size_table(ctx, hs)})
    pi = ctx.func('crypto.Prf.__init__')
    PI = ctx.sval(pi)
    common.expect_term(ctx, 'K5', PI, PI.final('self.hasher'), 'self._digestmod_dict[%s.id]' % pi.call_params()[0],
                       'the PRF digest is the one of the negotiated transform', ('K5', 'prf-init'), ctx.site(pi, pi.node))
    integ = prog.cls('crypto.Integrity')
    d = integ.lookup_attr('_digestmod_dict')
    ctx.require(isinstance(d, ast.Dict), 'anchor vanished: Integrity._digestmod_dict')
    have = {}
    for k, v in zip(d.keys, d.values):
        if isinstance(v, ast.Tuple) and len(v.elts) == 2:
            have[int(prog.const_eval(k, integ.module, integ))] = (src(v.elts[0]), prog.const_eval(v.elts[1], integ.module, integ))
    for k, v in {2: ('hashlib.sha1', 96), 12: ('hashlib.sha256', 128), 14: ('hashlib.sha512', 256)}.items():
        ctx.check(have.get(k) == v, 'K5', 'INTEG transform %d is HMAC-%s truncated to %d bits' % (k, v[0].split('.')[1], v[1]),
                  key=('K5', 'integ', k), site='crypto.py:%s' % d.lineno, detail={'found': have.get(k)})
    ks = ctx.func('crypto.Integrity.key_size')
    ctx.check(common.digest_size_table(ctx, ks) == want_sizes, 'K5', 'integrity key size = digest size (20/32/64)', key=('K5', 'integ-key'),
              site=ctx.site(ks, ks.node), detail={'found': common.digest_size_table(ctx, ks)})
    ii = ctx.func('crypto.Integrity.__init__')
    II = ctx.sval(ii)
    common.expect_term(ctx, 'K5', II, II.final('self.hasher'), 'self._digestmod_dict[%s.id][0]' % ii.call_params()[0],
                       'the integrity digest is the one of the negotiated transform', ('K5', 'integ-init'), ctx.site(ii, ii.node))
    ciph = prog.cls('crypto.Cipher')
    d = ciph.lookup_attr('_algorithm_dict')
    ctx.require(isinstance(d, ast.Dict), 'anchor vanished: Cipher._algorithm_dict')
    have = {int(prog.const_eval(k, ciph.module, ciph)): src(v) for k, v in zip(d.keys, d.values)}
    ctx.check(have == {12: 'algorithms.AES'}, 'K5', 'ENCR transform 12 is AES (CBC mode)', key=('K5', 'cipher-table'),
              site='crypto.py:%s' % d.lineno, detail={'found': have})
    ks = ctx.func('crypto.Cipher.key_size')
    kt = ctx.sval(ks).ret()
    vals = common.term_table(ctx, kt, [{'self._transform.keylen': 256, 'self._algorithm.key_sizes[0]': 128},
                                       {'self._transform.keylen': None, 'self._algorithm.key_sizes[0]': 128},
                                       {'self._transform.keylen': 192, 'self._algorithm.key_sizes[0]': 128}], None)
    ctx.check(vals == [32, 16, 24], 'K5', 'cipher key size = KEYLEN attribute // 8 (the algorithm\'s first size without one)',
              key=('K5', 'cipher-key'), site=ctx.site(ks, ks.node), detail={'returned': tq.text(kt)})
    for name, op in (('encrypt', 'encryptor'), ('decrypt', 'decryptor')):
        f = ctx.func('crypto.Cipher.' + name)
        F = ctx.sval(f)
        k_, iv_, d_ = f.call_params()[:3]
        obj = '_Cipher(self._algorithm(%s), modes.CBC(%s), backend=_)' % (k_, iv_)
        pats = ['%s.%s().update(%s) + %s.%s().finalize()' % (obj, op, d_, obj, op)]
        r = F.ret()
        ok = tq.match(F.expr(pats[0]), r) is not None
        if ok:
            # update and finalize are applied to the same encryptor / decryptor object
            objs = [x for x in tq.find_calls(r, 'method.' + op)]
            ok = len({x for x in objs}) == 1
        ctx.check(ok, 'K5', 'Cipher.%s is AES-CBC under the given key and IV (update + finalize of one %s)' % (name, op),
                  key=('K5', 'cbc', name), site=ctx.site(f, f.node), detail={'returned': tq.text(r, 500)})
    # transform identifiers are IANA's
    ids = {'message.Transform.PrfId': {'PRF_HMAC_SHA1': 2, 'PRF_HMAC_SHA2_256': 5, 'PRF_HMAC_SHA2_512': 7},
           'message.Transform.IntegId': {'AUTH_HMAC_SHA1_96': 2, 'AUTH_HMAC_SHA2_256_128': 12, 'AUTH_HMAC_SHA2_512_256': 14},
           'message.Transform.EncrId': {'ENCR_AES_CBC': 12},
           'message.Transform.Type': {'ENCR': 1, 'PRF': 2, 'INTEG': 3, 'DH': 4, 'ESN': 5},
           'message.Transform.DhId': dict(('DH_%d' % n, n) for n in (14, 15, 16, 17, 18, 19, 20, 21))}
    for q, want in ids.items():
        have = prog.enum_members(q)
        for k, v in want.items():
            ctx.check(have.get(k) == v, 'K5', '%s.%s = %d (IANA)' % (q.split('.')[-1], k, v), key=('K5', 'iana', q, k),
                      detail={'found': have.get(k)})


def check_primes(ctx, r6='K6', r7='K7'):
    prog = ctx.prog
    modp = prog.cls('crypto.MODPDH')
    d = modp.lookup_attr('_group_dict')
    ctx.require(isinstance(d, ast.Dict), 'anchor vanished: MODPDH._group_dict')
    have = {}
    for k, v in zip(d.keys, d.values):
        have[int(prog.const_eval(k, modp.module, modp))] = prog.const_eval(v, modp.module, modp)
    ctx.check(sorted(have) == sorted(MODP_C), r6, 'MODP groups offered are 14-18', key=(r6, 'groups'), detail={'found': sorted(have)})
    pi = machin_pi(8192 + 8)
    for gid, (bits, c) in MODP_C.items():
        p = (1 << bits) - (1 << (bits - 64)) - 1 + (1 << 64) * ((pi >> (8192 + 8 - (bits - 130))) + c)
        lit = have.get(gid)
        ok = isinstance(lit, str) and len(lit) == bits // 4 and int(lit, 16) == p
        ctx.check(ok, r6, 'group %d literal equals the RFC 3526 prime 2^%d - 2^%d - 1 + 2^64*(floor(2^%d pi) + %d)' % (
            gid, bits, bits - 64, bits - 130, c), key=(r6, 'prime', gid), site='crypto.py:%s' % d.lineno)
    mi = ctx.func('crypto.MODPDH.__init__')
    M = ctx.sval(mi)
    g = mi.call_params()[0]
    site = ctx.site(mi, mi.node)
    lit = 'self._group_dict[%s]' % g
    klen = M.final('self.key_len')
    common.expect_term(ctx, r6, M, klen, 'len(%s) // 2' % lit, 'the public value width is the octet length of the modulus literal',
                       (r6, 'modulus-width'), site)
    pn = M.final('self._pn')
    common.expect_term(ctx, r6, M, pn, 'dh.DHParameterNumbers(int(%s, 16), 2)' % lit, 'the modulus is that literal, generator 2',
                       (r6, 'generator'), site)
    priv = M.final('self._private_key')
    ok = priv is not None and pn is not None and tq.match(M.expr('_.parameters(_).generate_private_key()'), priv) is not None \
        and tq.contains(priv, pn)
    ctx.check(ok, r6, 'the private key is generated for those parameters', key=(r6, 'private'), site=site,
              detail={'found': tq.text(priv, 300) if priv else None})
    pub = M.final('self.public_key')
    ok = pub is not None and priv is not None and klen is not None
    if ok:
        env = dict(M.entry_env, PRIV=priv, KLEN=klen)
        ok = same(pub, M.expr("PRIV.public_key().public_numbers().y.to_bytes(KLEN, 'big')", env))
    ctx.check(ok, r7, 'MODP public value = y of that key as a fixed-width big-endian integer', key=(r7, 'modp-public'), site=site,
              detail={'found': tq.text(pub, 400) if pub else None})
    cs = ctx.func('crypto.MODPDH.compute_secret')
    CS = ctx.sval(cs)
    pk = cs.call_params()[0]
    common.expect_term(ctx, r7, CS, CS.final('self.shared_secret'),
                       "self._private_key.exchange(dh.DHPublicNumbers(int.from_bytes(%s, 'big'), self._pn).public_key(_))" % pk,
                       'MODP shared secret = exchange with the peer value read big-endian in the same group', (r7, 'modp-secret'),
                       ctx.site(cs, cs.node))


def check_ecdh(ctx, r7='K7'):
    prog = ctx.prog
    ec = prog.cls('crypto.ECDH')
    d = ec.lookup_attr('_ec_groups')
    ctx.require(isinstance(d, ast.Dict), 'anchor vanished: ECDH._ec_groups')
    have = {int(prog.const_eval(k, ec.module, ec)): src(v) for k, v in zip(d.keys, d.values)}
    ctx.check(have == {19: 'ec.SECP256R1()', 20: 'ec.SECP384R1()', 21: 'ec.SECP521R1()'}, r7,
              'groups 19/20/21 are the NIST P-256/P-384/P-521 curves (RFC 5903)', key=(r7, 'curves'), detail={'found': have})
    ei = ctx.func('crypto.ECDH.__init__')
    E = ctx.sval(ei)
    g = ei.call_params()[0]
    site = ctx.site(ei, ei.node)
    priv = E.final('self._private_key')
    common.expect_term(ctx, r7, E, priv, 'ec.generate_private_key(self._ec_groups[%s], backend=_)' % g,
                       'the private key is generated on the curve of the group', (r7, 'ec-key'), site)
    klen = E.final('self.key_len')
    # evaluated for each group: (bits of the group's curve + 7) // 8 - whether the bits are read from the generated key, from the curve
    # object of the group table, or from a table of widths computed from that table
    BITS = {'SECP256R1': 256, 'SECP384R1': 384, 'SECP521R1': 521}
    curve_of = {int(prog.const_eval(k, ec.module, ec)): src(v).split('.')[-1].rstrip('()') for k, v in zip(d.keys, d.values)}
    widths = {}
    if klen is not None and priv is not None:
        for gid in sorted(curve_of):
            def leaf(x, gid=gid):
                x = strip_ids(x)
                if x == ('param', g):
                    return gid
                if x[0] == 'global' and x[1].split('.')[-1].startswith('DH_') and x[1].split('.')[-1][3:].isdigit():
                    return int(x[1].split('.')[-1][3:])
                if x[0] == 'attr' and x[2] == 'key_size':
                    b = x[1]
                    if b == strip_ids(priv) or (b[0] == 'index' and b[1] == ('attr', ('param', ei.self_name), '_ec_groups') and tq.teval(b[2], leaf) == gid):
                        return BITS.get(curve_of[gid])
                    if tq.is_call(b) and isinstance(b[1], str) and b[1].split('.')[-1] in BITS and not b[3]:
                        return BITS[b[1].split('.')[-1]]
                raise tq.NoValue()
            try:
                widths[gid] = tq.teval(klen, leaf)
            except (tq.NoValue, Exception):
                widths[gid] = None
    ok = bool(widths) and widths == {gid: (BITS.get(c, 0) + 7) // 8 for gid, c in curve_of.items()}
    ctx.check(ok, r7, 'coordinate width = ceil(curve bits / 8)', key=(r7, 'ec-width'), site=site,
              detail={'found': tq.text(klen) if klen else None})
    pub = E.final('self.public_key')
    ok = pub is not None and priv is not None and klen is not None
    if ok:
        env = dict(E.entry_env, PRIV=priv, KLEN=klen)
        want = E.expr("PRIV.public_key().public_numbers().x.to_bytes(KLEN, 'big') + PRIV.public_key().public_numbers().y.to_bytes(KLEN, 'big')", env)
        ok = same(pub, want)
    ctx.check(ok, r7, 'ECDH public value = x | y of that key, each fixed-width big-endian', key=(r7, 'ec-public'), site=site,
              detail={'found': tq.text(pub, 500) if pub else None})
    cs = ctx.func('crypto.ECDH.compute_secret')
    CS = ctx.sval(cs)
    pk = cs.call_params()[0]
    common.expect_term(ctx, r7, CS, CS.final('self.shared_secret'),
                       "self._private_key.exchange(ec.ECDH(), ec.EllipticCurvePublicNumbers(int.from_bytes(%s[:self.key_len], 'big'), "
                       "int.from_bytes(%s[self.key_len:], 'big'), self._ec_groups[self.group]).public_key(_))" % (pk, pk),
                       'the peer value is split at the coordinate width into (x, y) on the same curve', (r7, 'ec-secret'),
                       ctx.site(cs, cs.node))
    fg = ctx.func('crypto.DiffieHellman.from_group')
    FG = ctx.sval(fg)
    g = fg.call_params()[0]
    def leaves(pc, t):
        """a returned local that was bound in the try body or in its handler is one return per binding"""
        if t[0] == 'cond':
            return leaves(tuple(pc) + ((t[1], True),), t[2]) + leaves(tuple(pc) + ((t[1], False),), t[3])
        return [(tuple(pc), t)]
    rets = [x for pc, t, _ in FG.returns for x in leaves(strip_ids(tuple(pc)), strip_ids(t))]
    modp = [r for r in rets if r[1] == strip_ids(FG.expr('MODPDH(%s)' % g)) and common.lookup_side(r[0], ('param', g)) == 'hit']
    ecdh = [r for r in rets if r[1] == strip_ids(FG.expr('ECDH(%s)' % g)) and common.lookup_side(r[0], ('param', g)) == 'miss']
    ctx.check(len(rets) == 2 and len(modp) == 1 and len(ecdh) == 1, r7,
              'from_group: MODP if the group is a MODP group, else ECDH (fallback on KeyError only)', key=(r7, 'from-group'),
              site=ctx.site(fg, fg.node), detail={'returns': [(tq.text(t), [tq.text(a[0]) for a in pc]) for pc, t in rets]})


MANIFEST = {
    'level': 'Static decision of formula and constant conformance for every input: prf+ is executed by the checker\'s symbolic '
             'interpreter (uninterpreted prf, symbolic byte strings) and equals the RFC 7296 2.13 term for every tested '
             '(digest size, output size) pair incl. size 0 and exact multiples; SKEYSEED (initial and rekey), the SK_* seed and '
             'split order/widths, KEYMAT seed (nonce order, g^ir prefix iff DH) and split order are extracted as terms and '
             'compared with the RFC terms over distinct symbolic key sizes; PRF/INTEG/cipher size tables and IANA identifiers; '
             'the five MODP prime literals are recomputed from the RFC 3526 definition with an integer Machin series; ECDH '
             'curves and fixed-width encodings.',
    'note': 'Trusted: HMAC, OpenSSL primitives. Declined: numeric equality with an independent implementation on concrete '
            'inputs; width of the library\'s shared secret.',
    'technique': 'symbolic interpretation + term extraction against RFC terms + constant recomputation',
    'design_ref': 'DESIGN.md 3/C04',
}
MANIFEST['note'] += (' Also decided here (necessary conditions shared between properties or added after the independent '
                     'change rounds, DESIGN.md 8.7): writers of self.dh and retry owner (from C01), algorithm structure carries the whole key (from C14). Rounds 7-8: the role handed to the kernel installation is the role in this exchange; inputs of the IKE key derivation at both negotiation functions (from C01).')
