"""C04 - Key material is derived exactly as RFC 7296 prescribes.

K1 (A6/A11) prf+ : Prf.prfplus is executed by the checker's *symbolic* interpreter (prf is an
         uninterpreted function, byte strings are sequences of symbolic atoms with lengths) for a
         range of output sizes and compared with the RFC 7296 2.13 term
         T1 = prf(K, S|0x01), Tn = prf(K, Tn-1|S|n), result = (T1|T2|...)[:size]; Prf.prf = HMAC(key, data).
K2       SKEYSEED = prf(Ni|Nr, g^ir) resp. prf(SK_d_old, g^ir|Ni|Nr), selected on old_sk_d.
K3       SK_* = prf+(SKEYSEED, Ni|Nr|SPIi|SPIr, 3*prf + 2*integ + 2*encr) split in the order
         SK_d|SK_ai|SK_ar|SK_ei|SK_er|SK_pi|SK_pr (format fields evaluated with distinct symbolic sizes).
K4       KEYMAT = prf+(SK_d, [g^ir|]Ni|Nr, 2*integ + 2*encr) split as ei|ai|er|ar; encr = 0 unless ESP; DH
         secret prepended iff the chosen proposal has a DH transform, on both roles; nonce order.
K5       size tables of PRF / INTEG / cipher against RFC 2404/4868/3602; transform ids are IANA's.
K6       the five MODP primes equal the RFC 3526 formula 2^n - 2^(n-64) - 1 + 2^64*(floor(2^(n-130) pi) + c),
         computed by the checker with an integer Machin series; generator 2; ids 14-18.
K7       ECDH curves per RFC 5903, fixed-width big-endian x|y, split at the coordinate length; MODP public
         value fixed-width big-endian; from_group falls back to ECDH on KeyError only.
"""
import ast
import re

from ..finite import Interp
from ..model import AnalysisError, namedtuple_fields, src, walk_no_nested
from ..terms import callee_name, calls_in, compare_parts, flatten_add, inline, kwargs_of, single_def
from . import common

EXPLANATION = ('static analysis: symbolic interpretation of prf+ (uninterpreted prf, symbolic byte strings) against the RFC '
               'term for many output sizes, term extraction of SKEYSEED / SK_* / KEYMAT with their split formats evaluated over '
               'distinct symbolic sizes, table conformance of sizes and identifiers, and recomputation of the MODP primes from '
               'the RFC 3526 definition')
ASSUMPTIONS = [
    'hmac.HMAC, OpenSSL AES/DH/ECDH and hashlib digests are correct (trusted base); numeric agreement with a second '
    'implementation on concrete inputs is differential testing and is declined',
    'the width of the shared secret returned by OpenSSL (leading zero octets) is library behaviour',
]

RFC_ORDER = ['sk_d', 'sk_ai', 'sk_ar', 'sk_ei', 'sk_er', 'sk_pi', 'sk_pr']
MODP_C = {14: (2048, 124476), 15: (3072, 1690314), 16: (4096, 240904), 17: (6144, 929484), 18: (8192, 4743158)}


# ------------------------------------------------------------------------------- symbolic prf+
class Sym(Interp):
    """byte strings are tuples of atoms; an atom is (tag, payload..., length)"""
    H = 3

    def stmt(self, st):
        if isinstance(st, ast.While):
            guard = 0
            while self.ev(st.test):
                guard += 1
                if guard > 64:
                    raise AnalysisError('symbolic prf+: loop does not terminate for size %r' % self.env.get('size'))
                self.block(st.body)
            return
        return super().stmt(st)

    def ev(self, e):
        if isinstance(e, ast.Call):
            f = e.func
            if isinstance(f, ast.Name) and f.id in ('bytes', 'bytearray') and not e.args:
                return ()
            if isinstance(f, ast.Constant):
                pass
            if isinstance(f, ast.Name) and f.id == 'len':
                v = self.ev(e.args[0])
                return sum(a[-1] for a in v)
            if isinstance(f, ast.Attribute) and f.attr == 'prf' and src(f.value) == 'self' and len(e.args) == 2:
                return (('prf', self.ev(e.args[0]), self.ev(e.args[1]), self.H),)
            if isinstance(f, ast.Attribute) and f.attr == 'to_bytes' and len(e.args) >= 2:
                n = self.ev(f.value)
                return (('int', n, self.ev(e.args[0]), self.ev(e.args[1]), self.ev(e.args[0])),)
        if isinstance(e, ast.Constant) and isinstance(e.value, bytes) and e.value == b'':
            return ()
        if isinstance(e, ast.Subscript) and isinstance(e.slice, ast.Slice) and e.slice.lower is None and e.slice.step is None:
            v = self.ev(e.value)
            return ('trunc', v, self.ev(e.slice.upper))
        return super().ev(e)


def rfc_prfplus(key, seed, size, H):
    out = ()
    t = ()
    i = 1
    while sum(a[-1] for a in out) < size:
        t = (('prf', key, t + seed + (('int', i, 1, 'big', 1),), H),)
        out += t
        i += 1
    return ('trunc', out, size)


def machin_pi(bits):
    """floor(pi * 2^bits) by Machin's formula in integer arithmetic"""
    guard = 64
    one = 1 << (bits + guard)

    def arctan_inv(x):
        total = term = one // x
        x2 = x * x
        n = 1
        while term:
            term //= x2
            n += 2
            total += (-1 if (n // 2) % 2 else 1) * (term // n)
        return total
    pi = 4 * (4 * arctan_inv(5) - arctan_inv(239))
    return pi >> guard


def fmt_fields(fmt_call, env, prog, fi):
    """sizes of the fields of a struct format built by 'x'.format(a, b, c), evaluated in env"""
    if not (isinstance(fmt_call, ast.Call) and isinstance(fmt_call.func, ast.Attribute) and fmt_call.func.attr == 'format'
            and isinstance(fmt_call.func.value, ast.Constant)):
        raise AnalysisError('key split: struct format is not a constant .format() call: %s' % src(fmt_call)[:60])
    text = fmt_call.func.value.value
    args = [Interp(prog, fi, env).ev(a) for a in fmt_call.args]
    if not text.startswith('>'):
        raise AnalysisError('key split: format %r is not big-endian/packed' % text)
    fields = re.findall(r'\{(\d*)\}s', text[1:])
    if ''.join('{%s}s' % f for f in fields) != text[1:]:
        raise AnalysisError('key split: unexpected format %r' % text)
    return [args[int(f) if f else i] for i, f in enumerate(fields)]


def fmt_sizes(ctx, fi, unpack_call, env):
    """field sizes of struct.unpack('>{0}s{1}s..'.format(a, b, ..), ..) (a sa.sval CallRec) when the key size of the
    negotiated cipher / integrity / prf object is env['encr'] / env['integ'] / env['prf'] and the SA is ESP"""
    from .. import tq
    f = unpack_call.args.get('#0')
    if f is None or not (tq.is_call(f, 'method.format') and f[2][0] == 'const' and isinstance(f[2][2], str)):
        return None
    text = f[2][2]
    fields = re.findall(r'\{(\d*)\}s', text[1:])
    if not text.startswith('>') or ''.join('{%s}s' % x for x in fields) != text[1:]:
        return None

    def leaf(t):
        if t[0] == 'attr' and t[2] == 'key_size' and tq.is_call(t[1]):
            kind = {'new crypto.Cipher': 'encr', 'new crypto.Integrity': 'integ', 'new crypto.Prf': 'prf'}.get(t[1][1])
            if kind in env:
                return env[kind]
        if t[0] == 'attr' and t[2] == 'protocol_id':
            return 'ESP'
        if t[0] == 'global' and t[1].endswith('Protocol.ESP'):
            return 'ESP'
        raise tq.NoValue()
    try:
        args = [tq.teval(v, leaf) for k, v in f[3]]
    except tq.NoValue:
        return None
    try:
        return [args[int(x) if x else i] for i, x in enumerate(fields)]
    except IndexError:
        return None


def run(ctx):
    prog, res = ctx.prog, ctx.res

    # ---------------------------------------------------------------- K1
    pp = ctx.func('crypto.Prf.prfplus')
    ps = pp.call_params()
    ctx.require(len(ps) == 3, 'anchor vanished: Prf.prfplus(key, seed, size)')
    K, S = (('K', 5),), (('S', 7),)
    bad = None
    n = 0
    for H in (1, 3):
        Sym.H = H
        for size in range(0, 4 * H + 2):
            it = Sym(prog, pp, {ps[0]: K, ps[1]: S, ps[2]: size})
            got = it.run()
            want = rfc_prfplus(K, S, size, H)
            n += 1
            if got != want and bad is None:
                bad = (H, size, repr(got)[:300], repr(want)[:300])
    ctx.check(bad is None, 'K1', 'prf+ equals T1 = prf(K, S|0x01), Tn = prf(K, Tn-1|S|n), truncated to the requested size, for %d '
              '(digest size, output size) combinations under symbolic interpretation' % n, key=('K1', 'prfplus'),
              site=ctx.site(pp, pp.node), detail={'digest,size,got,expected': bad})
    pf = ctx.func('crypto.Prf.prf')
    rets = [r for r in walk_no_nested(pf.node) if isinstance(r, ast.Return)]
    e = inline(res, pf, rets[0].value, 3) if len(rets) == 1 else None
    pps = pf.call_params()
    ctx.check(e is not None and src(e) == 'HMAC(%s, %s, digestmod=self.hasher).digest()' % (pps[0], pps[1]), 'K1',
              'prf(key, data) = HMAC(key, data) with the negotiated digest', key=('K1', 'prf'), site=ctx.site(pf, pf.node))

    # ---------------------------------------------------------------- K2 / K3
    gk = ctx.func('ikesa.IkeSa.generate_ike_sa_key_material')
    prm = gk.call_params()
    ctx.require(prm[:7] == ['ike_proposal', 'nonce_i', 'nonce_r', 'spi_i', 'spi_r', 'shared_secret', 'old_sk_d'],
                'parameters of generate_ike_sa_key_material changed: %s' % prm)
    objs = {}
    for name, cls_, ttype in (('prf', 'Prf', 'PRF'), ('integ', 'Integrity', 'INTEG'), ('cipher', 'Cipher', 'ENCR')):
        for v, defs in res.local_defs(gk).items():
            if len(defs) == 1 and isinstance(defs[0], ast.Call) and callee_name(defs[0]) == cls_ and defs[0].args \
                    and src(defs[0].args[0]) == 'ike_proposal.get_transform(Transform.Type.%s)' % ttype:
                objs[name] = v
    ctx.check(len(objs) == 3, 'K3', 'PRF, integrity and cipher objects are built from the negotiated transforms of their type',
              key=('K3', 'objects'), site=ctx.site(gk, gk.node), detail={'found': objs})
    if len(objs) != 3:
        return
    P, I, C = objs['prf'], objs['integ'], objs['cipher']
    ifs = [n_ for n_ in walk_no_nested(gk.node) if isinstance(n_, ast.If) and 'old_sk_d' in src(n_.test)]
    ok = len(ifs) == 1
    if ok:
        t = ifs[0]
        neg = src(t.test) in ('not old_sk_d', 'old_sk_d is None')
        pos = src(t.test) in ('old_sk_d', 'old_sk_d is not None')
        ok = (neg or pos) and len(t.body) == 1 and len(t.orelse) == 1 and all(isinstance(s, ast.Assign) for s in t.body + t.orelse)
        if ok:
            first, rekey = (t.body[0], t.orelse[0]) if neg else (t.orelse[0], t.body[0])
            ok = src(first.targets[0]) == src(rekey.targets[0])
            sk = src(first.targets[0])
            f, r = first.value, rekey.value
            ok = ok and isinstance(f, ast.Call) and src(f.func) == P + '.prf' and [src(a) for a in f.args] == [
                'nonce_i + nonce_r', 'shared_secret']
            ctx.check(ok, 'K2', 'initial SKEYSEED = prf(Ni | Nr, g^ir)', key=('K2', 'initial'), site=ctx.site(gk, first))
            ok2 = isinstance(r, ast.Call) and src(r.func) == P + '.prf' and len(r.args) == 2 and src(r.args[0]) == 'old_sk_d' \
                and [src(o) for o in flatten_add(r.args[1])] == ['shared_secret', 'nonce_i', 'nonce_r']
            ctx.check(ok2, 'K2', 'rekey SKEYSEED = prf(SK_d(old), g^ir | Ni | Nr)', key=('K2', 'rekey'), site=ctx.site(gk, rekey))
            ok = ok and ok2
    ctx.check(ok, 'K2', 'SKEYSEED is selected on the presence of the old SK_d', key=('K2', 'branch'), site=ctx.site(gk, gk.node))
    # keymat
    km = None
    for v, defs in res.local_defs(gk).items():
        if len(defs) == 1 and isinstance(defs[0], ast.Call) and callee_name(defs[0]) == 'prfplus':
            km = (v, defs[0])
    ctx.check(km is not None, 'K3', 'the IKE key material is produced by prf+', key=('K3', 'prfplus-call'), site=ctx.site(gk, gk.node))
    if km is None:
        return
    kv, kc = km
    env = {P + '.key_size': 5, I + '.key_size': 7, C + '.key_size': 11}
    ok = src(kc.func.value) == P and len(kc.args) == 3 and src(kc.args[0]) == sk \
        and [src(o) for o in flatten_add(kc.args[1])] == ['nonce_i', 'nonce_r', 'spi_i', 'spi_r']
    ctx.check(ok, 'K3', 'SK_* seed material = prf+(SKEYSEED, Ni | Nr | SPIi | SPIr, ...)', key=('K3', 'seed'), site=ctx.site(gk, kc),
              detail={'found': src(kc)[:160]})
    total = Interp(prog, gk, env).ev(kc.args[2]) if len(kc.args) == 3 else None
    ctx.check(total == 3 * 5 + 2 * 7 + 2 * 11, 'K3', 'requested length = 3*prf + 2*integ + 2*encr key sizes', key=('K3', 'length'),
              site=ctx.site(gk, kc), detail={'found': src(kc.args[2]) if len(kc.args) == 3 else None})
    ups = [n_ for n_ in walk_no_nested(gk.node) if isinstance(n_, ast.Assign) and isinstance(n_.value, ast.Call)
           and callee_name(n_.value) == 'unpack']
    ctx.check(len(ups) == 1, 'K3', 'the key material is split once', key=('K3', 'split'), site=ctx.site(gk, gk.node))
    if len(ups) == 1:
        u = ups[0]
        sizes = fmt_fields(u.value.args[0], env, prog, gk)
        tg = [src(t) for t in u.targets[0].elts] if isinstance(u.targets[0], ast.Tuple) else []
        ctx.check(src(u.value.args[1]) == kv, 'K3', 'the split consumes the prf+ output', key=('K3', 'split-input'), site=ctx.site(gk, u))
        ctx.check(sizes == [5, 7, 7, 11, 11, 5, 5] and tg == RFC_ORDER and sum(sizes) == total, 'K3',
                  'split order and widths: SK_d(prf) SK_ai SK_ar (integ) SK_ei SK_er (encr) SK_pi SK_pr (prf), covering the whole output',
                  key=('K3', 'split-order'), site=ctx.site(gk, u), detail={'targets': tg, 'sizes': sizes})
    kf = namedtuple_fields(prog, 'ikesa', 'Keyring')
    ctx.check(kf == RFC_ORDER, 'K3', 'Keyring fields are declared in RFC order', key=('K3', 'keyring-fields'), detail={'found': kf})
    kr = [c for c in calls_in(gk.node) if callee_name(c) == 'Keyring']
    ctx.check(len(kr) == 1 and [src(a) for a in kr[0].args] == RFC_ORDER and not kr[0].keywords, 'K3',
              'the Keyring is filled positionally from the like-named split results', key=('K3', 'keyring-fill'),
              site=ctx.site(gk, gk.node))

    # ---------------------------------------------------------------- K4
    gc = ctx.func('ikesa.IkeSa.generate_child_sa_key_material')
    cp_ = gc.call_params()
    ctx.require(cp_ == ['child_proposal', 'keyseed', 'sk_d'], 'parameters of generate_child_sa_key_material changed: %s' % cp_)
    kc = [c for c in calls_in(gc.node) if callee_name(c) == 'prfplus']
    ok = len(kc) == 1 and src(kc[0].func.value) == 'self.my_crypto.prf' and len(kc[0].args) == 3 \
        and [src(a) for a in kc[0].args[:2]] == ['sk_d', 'keyseed']
    ctx.check(ok, 'K4', 'KEYMAT = prf+(SK_d, keyseed, ...) with the IKE_SA\'s PRF', key=('K4', 'prfplus'), site=ctx.site(gc, gc.node))
    ivar = evar = None
    for v, defs in res.local_defs(gc).items():
        for d in defs:
            if isinstance(d, ast.Attribute) and d.attr == 'key_size' and isinstance(d.value, ast.Call):
                if callee_name(d.value) == 'Integrity' and src(d.value.args[0]) == 'child_proposal.get_transform(Transform.Type.INTEG)':
                    ivar = v
                if callee_name(d.value) == 'Cipher' and src(d.value.args[0]) == 'child_proposal.get_transform(Transform.Type.ENCR)':
                    evar = v
    ctx.check(ivar is not None and evar is not None, 'K4', 'CHILD key sizes come from the negotiated INTEG and ENCR transforms',
              key=('K4', 'sizes'), site=ctx.site(gc, gc.node))
    if ok and ivar and evar:
        edefs = res.local_defs(gc)[evar]
        zero = [d for d in edefs if isinstance(d, ast.Constant) and d.value == 0]
        guard = [n_ for n_ in walk_no_nested(gc.node) if isinstance(n_, ast.If) and any(
            isinstance(s, ast.Assign) and src(s.targets[0]) == evar for s in n_.body)]
        okg = len(edefs) == 2 and len(zero) == 1 and len(guard) == 1 and not guard[0].orelse
        if okg:
            c = compare_parts(guard[0].test)
            okg = c is not None and c[1] is ast.Eq and {src(c[0]), src(c[2])} == {'child_proposal.protocol_id', 'Proposal.Protocol.ESP'}
        ctx.check(okg, 'K4', 'the encryption key size is 0 unless the protocol is ESP', key=('K4', 'ah-no-encr'), site=ctx.site(gc, gc.node))
        env = {ivar: 7, evar: 11}
        total = Interp(prog, gc, env).ev(kc[0].args[2])
        ctx.check(total == 2 * 7 + 2 * 11, 'K4', 'requested length = 2*integ + 2*encr key sizes', key=('K4', 'length'),
                  site=ctx.site(gc, kc[0]))
        ups = [n_ for n_ in walk_no_nested(gc.node) if isinstance(n_, ast.Assign) and isinstance(n_.value, ast.Call)
               and callee_name(n_.value) == 'unpack']
        ctx.check(len(ups) == 1, 'K4', 'KEYMAT is split once', key=('K4', 'split'), site=ctx.site(gc, gc.node))
        if len(ups) == 1:
            u = ups[0]
            sizes = fmt_fields(u.value.args[0], env, prog, gc)
            tg = [src(t) for t in u.targets[0].elts] if isinstance(u.targets[0], ast.Tuple) else []
            kmv = single_def(res, gc, src(u.value.args[1]))
            ctx.check(sizes == [11, 7, 11, 7] and tg == ['sk_ei', 'sk_ai', 'sk_er', 'sk_ar'] and kmv is kc[0], 'K4',
                      'KEYMAT split: encryption key before integrity key, initiator-to-responder direction first',
                      key=('K4', 'split-order'), site=ctx.site(gc, u), detail={'targets': tg, 'sizes': sizes})
        kr = [c for c in calls_in(gc.node) if callee_name(c) == 'Keyring']
        ctx.check(len(kr) == 1 and [src(a) for a in kr[0].args] == ['None', 'sk_ai', 'sk_ar', 'sk_ei', 'sk_er', 'None', 'None'], 'K4',
                  'the CHILD keyring is filled at the like-named positions', key=('K4', 'keyring-fill'), site=ctx.site(gc, gc.node))
    # call sites: keyseed and sk_d
    nsites = 0
    for q, req_msg in (('ikesa.IkeSa._process_create_child_sa_negotiation_req', 'responder'),
                       ('ikesa.IkeSa._process_create_child_sa_negotiation_res', 'initiator')):
        fi = ctx.func(q)
        for c in [c for c in calls_in(fi.node) if callee_name(c) == 'generate_child_sa_key_material']:
            nsites += 1
            b = kwargs_of(c, target=gc)
            ctx.check(src(b.get('sk_d')) == 'self.ike_sa_keyring.sk_d', 'K4', '%s: KEYMAT is keyed with the current IKE_SA\'s SK_d' % fi.name,
                      key=('K4', q, 'sk_d'), site=ctx.site(fi, c))
            ks = src(b.get('keyseed'))
            defs = [d for d in res.local_defs(fi).get(ks, []) if isinstance(d, ast.AST)]
            base = [d for d in defs if not any(isinstance(x, ast.Name) and x.id == ks for x in ast.walk(d))]
            ext = [d for d in defs if d not in base]
            okb = len(base) == 1 and [src(o) for o in flatten_add(base[0])] == ['request_payload_nonce.nonce', 'response_payload_nonce.nonce']
            ctx.check(okb, 'K4', '%s: keyseed = Ni | Nr (request nonce first)' % fi.name, key=('K4', q, 'nonces'), site=ctx.site(fi, c))
            oke = len(ext) == 1 and [src(o) for o in flatten_add(ext[0])][1:] == [ks] and src(flatten_add(ext[0])[0]).endswith('.shared_secret')
            ifs = [n_ for n_ in walk_no_nested(fi.node) if isinstance(n_, ast.If) and any(
                isinstance(s, ast.Assign) and s.value is (ext[0] if ext else None) for s in n_.body)]
            oke = oke and len(ifs) == 1 and src(ifs[0].test).endswith('.get_transforms(Transform.Type.DH)') \
                and src(ifs[0].test).split('.')[0] == src(b.get('child_proposal'))
            ctx.check(oke, 'K4', '%s: g^ir is prepended exactly when the chosen proposal has a DH transform' % fi.name,
                      key=('K4', q, 'dh-prefix'), site=ctx.site(fi, c))
            check_nonce_sources(ctx, fi, req_msg)
    ctx.floor('K4 KEYMAT derivation sites', nsites, 2)

    # ---------------------------------------------------------------- K5
    check_tables(ctx)
    # ---------------------------------------------------------------- K6
    check_primes(ctx)
    # ---------------------------------------------------------------- K7
    check_ecdh(ctx)


def check_nonce_sources(ctx, fi, role):
    """request_payload_nonce / response_payload_nonce come from the request / response of the exchange on both roles"""
    res = ctx.res
    msg = fi.call_params()[0]
    defs = res.local_defs(fi)
    rq = [src(d) for d in defs.get('request_payload_nonce', []) if isinstance(d, ast.AST)]
    rs = [src(d) for d in defs.get('response_payload_nonce', []) if isinstance(d, ast.AST)]
    init_req = 'ike_sa_init_req.get_payload(Payload.Type.NONCE)'
    init_res = 'ike_sa_init_res.get_payload(Payload.Type.NONCE)'
    if role == 'responder':
        want_rq = sorted([init_req, '%s.get_payload(Payload.Type.NONCE, encrypted=True)' % msg])
        want_rs = sorted([init_res, 'PayloadNONCE()'])
    else:
        want_rq = sorted([init_req, 'self.request.get_payload(Payload.Type.NONCE, True)'])
        want_rs = sorted([init_res, '%s.get_payload(Payload.Type.NONCE, True)' % msg])
    ctx.check(sorted(rq) == want_rq and sorted(rs) == want_rs, 'K4',
              '%s: Ni comes from the request and Nr from the response of the exchange (IKE_SA_INIT messages for IKE_AUTH)' % fi.name,
              key=('K4', fi.qual, 'nonce-sources'), site=ctx.site(fi, fi.node), detail={'request': rq, 'response': rs})
    for nm, data in (('ike_sa_init_req', 'self.ike_sa_init_req_data'), ('ike_sa_init_res', 'self.ike_sa_init_res_data')):
        d = single_def(res, fi, nm)
        ctx.check(isinstance(d, ast.AST) and src(d) == 'Message.parse(%s)' % data, 'K4', '%s: %s is the retained %s' % (
            fi.name, nm, data), key=('K4', fi.qual, nm), site=ctx.site(fi, fi.node))
    # the IKE_AUTH branch selects the retained messages
    ifs = [n_ for n_ in walk_no_nested(fi.node) if isinstance(n_, ast.If) and src(n_.test) == '%s.exchange_type == Message.Exchange.IKE_AUTH' % msg
           and any(isinstance(s, ast.Assign) and src(s.targets[0]) == 'request_payload_nonce' for s in n_.body)]
    ok = len(ifs) == 1 and any(isinstance(s, ast.Assign) and src(s.targets[0]) == 'request_payload_nonce' and src(s.value) == init_req
                               for s in ifs[0].body) and any(
        isinstance(s, ast.Assign) and src(s.targets[0]) == 'response_payload_nonce' and src(s.value) == init_res for s in ifs[0].body)
    ctx.check(ok, 'K4', '%s: the IKE_SA_INIT nonces are used exactly for the IKE_AUTH exchange' % fi.name,
              key=('K4', fi.qual, 'ike-auth-nonces'), site=ctx.site(fi, fi.node))


def check_tables(ctx):
    prog = ctx.prog
    prf = prog.cls('crypto.Prf')
    d = prf.lookup_attr('_digestmod_dict')
    ctx.require(isinstance(d, ast.Dict), 'anchor vanished: Prf._digestmod_dict')
    have = {int(prog.const_eval(k, prf.module, prf)): src(v) for k, v in zip(d.keys, d.values)}
    want = {2: 'hashlib.sha1', 5: 'hashlib.sha256', 7: 'hashlib.sha512'}
    for k, v in want.items():
        ctx.check(have.get(k) == v, 'K5', 'PRF transform %d is HMAC with %s' % (k, v), key=('K5', 'prf', k), site='crypto.py:%s' % d.lineno,
                  detail={'found': have.get(k)})
    ks, hs = prf.lookup('key_size'), prf.lookup('hash_size')
    ctx.check(ks is not None and hs is not None and src(ks.node.body[-1]) == 'return self.hash_size'
              and src(hs.node.body[-1]) == 'return self.hasher().digest_size', 'K5', 'PRF key size = output size = digest size',
              key=('K5', 'prf-sizes'), site=ctx.site(hs, hs.node) if hs else None)
    pi = ctx.func('crypto.Prf.__init__')
    ctx.check(any(isinstance(n, ast.Assign) and src(n) == 'self.hasher = self._digestmod_dict[transform.id]' for n in walk_no_nested(pi.node)),
              'K5', 'the PRF digest is the one of the negotiated transform', key=('K5', 'prf-init'), site=ctx.site(pi, pi.node))
    integ = prog.cls('crypto.Integrity')
    d = integ.lookup_attr('_digestmod_dict')
    ctx.require(isinstance(d, ast.Dict), 'anchor vanished: Integrity._digestmod_dict')
    have = {}
    for k, v in zip(d.keys, d.values):
        if isinstance(v, ast.Tuple) and len(v.elts) == 2:
            have[int(prog.const_eval(k, integ.module, integ))] = (src(v.elts[0]), prog.const_eval(v.elts[1], integ.module, integ))
    for k, v in {2: ('hashlib.sha1', 96), 12: ('hashlib.sha256', 128), 14: ('hashlib.sha512', 256)}.items():
        ctx.check(have.get(k) == v, 'K5', 'INTEG transform %d is HMAC-%s truncated to %d bits' % (k, v[0].split('.')[1], v[1]),
                  key=('K5', 'integ', k), site='crypto.py:%s' % d.lineno, detail={'found': have.get(k)})
    ks = integ.lookup('key_size')
    ctx.check(ks is not None and src(ks.node.body[-1]) == 'return self.hasher().digest_size', 'K5', 'integrity key size = digest size '
              '(20/32/64)', key=('K5', 'integ-key'), site=ctx.site(ks, ks.node) if ks else None)
    ciph = prog.cls('crypto.Cipher')
    d = ciph.lookup_attr('_algorithm_dict')
    ctx.require(isinstance(d, ast.Dict), 'anchor vanished: Cipher._algorithm_dict')
    have = {int(prog.const_eval(k, ciph.module, ciph)): src(v) for k, v in zip(d.keys, d.values)}
    ctx.check(have == {12: 'algorithms.AES'}, 'K5', 'ENCR transform 12 is AES (CBC mode)', key=('K5', 'cipher-table'),
              site='crypto.py:%s' % d.lineno, detail={'found': have})
    ks = ciph.lookup('key_size')
    ctx.check(ks is not None and src(ks.node.body[-1]) == 'return (self._transform.keylen or self._algorithm.key_sizes[0]) // 8', 'K5',
              'cipher key size = KEYLEN attribute // 8', key=('K5', 'cipher-key'), site=ctx.site(ks, ks.node) if ks else None)
    for name in ('encrypt', 'decrypt'):
        f = ctx.func('crypto.Cipher.' + name)
        c = [x for x in calls_in(f.node) if callee_name(x) == '_Cipher']
        ctx.check(len(c) == 1 and [src(a) for a in c[0].args] == ['self._algorithm(key)', 'modes.CBC(iv)'], 'K5',
                  'Cipher.%s is AES-CBC under the given key and IV' % name, key=('K5', 'cbc', name), site=ctx.site(f, f.node))
    # transform identifiers are IANA's
    ids = {'message.Transform.PrfId': {'PRF_HMAC_SHA1': 2, 'PRF_HMAC_SHA2_256': 5, 'PRF_HMAC_SHA2_512': 7},
           'message.Transform.IntegId': {'AUTH_HMAC_SHA1_96': 2, 'AUTH_HMAC_SHA2_256_128': 12, 'AUTH_HMAC_SHA2_512_256': 14},
           'message.Transform.EncrId': {'ENCR_AES_CBC': 12},
           'message.Transform.Type': {'ENCR': 1, 'PRF': 2, 'INTEG': 3, 'DH': 4, 'ESN': 5},
           'message.Transform.DhId': dict(('DH_%d' % n, n) for n in (14, 15, 16, 17, 18, 19, 20, 21))}
    for q, want in ids.items():
        have = prog.enum_members(q)
        for k, v in want.items():
            ctx.check(have.get(k) == v, 'K5', '%s.%s = %d (IANA)' % (q.split('.')[-1], k, v), key=('K5', 'iana', q, k),
                      detail={'found': have.get(k)})


def check_primes(ctx):
    prog = ctx.prog
    modp = prog.cls('crypto.MODPDH')
    d = modp.lookup_attr('_group_dict')
    ctx.require(isinstance(d, ast.Dict), 'anchor vanished: MODPDH._group_dict')
    have = {}
    for k, v in zip(d.keys, d.values):
        have[int(prog.const_eval(k, modp.module, modp))] = prog.const_eval(v, modp.module, modp)
    ctx.check(sorted(have) == sorted(MODP_C), 'K6', 'MODP groups offered are 14-18', key=('K6', 'groups'), detail={'found': sorted(have)})
    pi = machin_pi(8192 + 8)
    for gid, (bits, c) in MODP_C.items():
        p = (1 << bits) - (1 << (bits - 64)) - 1 + (1 << 64) * ((pi >> (8192 + 8 - (bits - 130))) + c)
        lit = have.get(gid)
        ok = isinstance(lit, str) and len(lit) == bits // 4 and int(lit, 16) == p
        ctx.check(ok, 'K6', 'group %d literal equals the RFC 3526 prime 2^%d - 2^%d - 1 + 2^64*(floor(2^%d pi) + %d)' % (
            gid, bits, bits - 64, bits - 130, c), key=('K6', 'prime', gid), site='crypto.py:%s' % d.lineno)
    mi = ctx.func('crypto.MODPDH.__init__')
    t = src(mi.node)
    ctx.check('self.key_len = len(self._group_dict[group]) // 2' in t and 'int(self._group_dict[self.group], 16)' in t, 'K6',
              'the modulus is that literal and the public value width is its octet length', key=('K6', 'modulus'), site=ctx.site(mi, mi.node))
    pn = [c for c in calls_in(mi.node) if callee_name(c) == 'DHParameterNumbers']
    ctx.check(len(pn) == 1 and len(pn[0].args) == 2 and isinstance(pn[0].args[1], ast.Constant) and pn[0].args[1].value == 2
              and src(pn[0].args[0]) == 'module', 'K6', 'generator 2', key=('K6', 'generator'), site=ctx.site(mi, mi.node))
    tb = [c for c in calls_in(mi.node) if callee_name(c) == 'to_bytes']
    ctx.check(len(tb) == 1 and [src(a) for a in tb[0].args] == ['self.key_len', "'big'"] and
              src(single_def(ctx.res, mi, src(tb[0].func.value))) == 'self._private_key.public_key().public_numbers().y', 'K7',
              'MODP public value = y as a fixed-width big-endian integer', key=('K7', 'modp-public'), site=ctx.site(mi, mi.node))
    cs = ctx.func('crypto.MODPDH.compute_secret')
    t = src(cs.node)
    ctx.check("int.from_bytes(peer_public_key, 'big')" in t and 'dh.DHPublicNumbers(peer_public_key_int, self._pn)' in t
              and 'self.shared_secret = self._private_key.exchange(peer_public_key)' in t, 'K7',
              'MODP shared secret = exchange with the peer value read big-endian in the same group', key=('K7', 'modp-secret'),
              site=ctx.site(cs, cs.node))


def check_ecdh(ctx):
    prog = ctx.prog
    ec = prog.cls('crypto.ECDH')
    d = ec.lookup_attr('_ec_groups')
    ctx.require(isinstance(d, ast.Dict), 'anchor vanished: ECDH._ec_groups')
    have = {int(prog.const_eval(k, ec.module, ec)): src(v) for k, v in zip(d.keys, d.values)}
    ctx.check(have == {19: 'ec.SECP256R1()', 20: 'ec.SECP384R1()', 21: 'ec.SECP521R1()'}, 'K7',
              'groups 19/20/21 are the NIST P-256/P-384/P-521 curves (RFC 5903)', key=('K7', 'curves'), detail={'found': have})
    ei = ctx.func('crypto.ECDH.__init__')
    t = src(ei.node)
    ctx.check('self.key_len = (self._private_key.key_size + 7) // 8' in t, 'K7', 'coordinate width = ceil(curve bits / 8)',
              key=('K7', 'ec-width'), site=ctx.site(ei, ei.node))
    pk = [n for n in walk_no_nested(ei.node) if isinstance(n, ast.Assign) and src(n.targets[0]) == 'self.public_key']
    ok = len(pk) == 1 and [src(o) for o in flatten_add(pk[0].value)] == [
        "public_numbers.x.to_bytes(self.key_len, 'big')", "public_numbers.y.to_bytes(self.key_len, 'big')"]
    ctx.check(ok, 'K7', 'ECDH public value = x | y, each fixed-width big-endian', key=('K7', 'ec-public'), site=ctx.site(ei, ei.node))
    ctx.check('ec.generate_private_key(self._ec_groups[group]' in t, 'K7', 'the private key is generated on the curve of the group',
              key=('K7', 'ec-key'), site=ctx.site(ei, ei.node))
    cs = ctx.func('crypto.ECDH.compute_secret')
    t = src(cs.node)
    ctx.check("x = int.from_bytes(peer_public_key[:self.key_len], 'big')" in t and "y = int.from_bytes(peer_public_key[self.key_len:], 'big')" in t
              and 'ec.EllipticCurvePublicNumbers(x, y, self._ec_groups[self.group])' in t
              and 'self.shared_secret = self._private_key.exchange(ec.ECDH(), peer_public_key)' in t, 'K7',
              'the peer value is split at the coordinate width into (x, y) on the same curve', key=('K7', 'ec-secret'),
              site=ctx.site(cs, cs.node))
    fg = ctx.func('crypto.DiffieHellman.from_group')
    tr = [n for n in walk_no_nested(fg.node) if isinstance(n, ast.Try)]
    ok = len(tr) == 1 and len(tr[0].handlers) == 1 and src(tr[0].handlers[0].type) == 'KeyError' \
        and src(tr[0].body[0]) == 'return MODPDH(group)' and src(tr[0].handlers[0].body[0]) == 'return ECDH(group)'
    ctx.check(ok, 'K7', 'from_group: MODP if the group is a MODP group, else ECDH (fallback on KeyError only)', key=('K7', 'from-group'),
              site=ctx.site(fg, fg.node))


MANIFEST = {
    'level': 'Static decision of formula and constant conformance for every input: prf+ is executed by the checker\'s symbolic '
             'interpreter (uninterpreted prf, symbolic byte strings) and equals the RFC 7296 2.13 term for every tested '
             '(digest size, output size) pair incl. size 0 and exact multiples; SKEYSEED (initial and rekey), the SK_* seed and '
             'split order/widths, KEYMAT seed (nonce order, g^ir prefix iff DH) and split order are extracted as terms and '
             'compared with the RFC terms over distinct symbolic key sizes; PRF/INTEG/cipher size tables and IANA identifiers; '
             'the five MODP prime literals are recomputed from the RFC 3526 definition with an integer Machin series; ECDH '
             'curves and fixed-width encodings.',
    'note': 'Trusted: HMAC, OpenSSL primitives. Declined: numeric equality with an independent implementation on concrete '
            'inputs; width of the library\'s shared secret.',
    'technique': 'symbolic interpretation + term extraction against RFC terms + constant recomputation',
    'design_ref': 'DESIGN.md 3/C04',
}
