"""Newer syntax brought to the forms the rest of the engine reads (runs right after parsing, before anything is indexed).

  match subject: case V: ... case A | B: ... case _:      ->  if subject == V: ... elif subject in (A, B): ... else: ...
                                                             (value / singleton / or / wildcard / capture patterns, with guards)
  if (x := e) <rest>:                                      ->  x = e; if x <rest>:        (the walrus is the first thing the test evaluates)
  with contextlib.suppress(E1, E2): BODY                   ->  try: BODY  except (E1, E2): pass
  x: T = v  (inside functions)                             ->  x = v;   x: T  -> nothing
  class R(NamedTuple): a: T; b: T = d   /  @dataclass class R: ...   (fields only)
                                                           ->  R = namedtuple('R', ['a', 'b'], defaults=[d])
Anything in these families that does not fit (class / sequence / mapping patterns, a walrus deeper inside a test, records with
methods) is left as it is; the analyses then stop on it with a named construct instead of guessing."""
import ast
import copy


def _walk_same_loop(node):
    todo = [node]
    while todo:
        n = todo.pop()
        yield n
        if isinstance(n, (ast.For, ast.While, ast.AsyncFor, ast.FunctionDef, ast.AsyncFunctionDef, ast.ClassDef, ast.Lambda)) and n is not node:
            continue
        todo.extend(ast.iter_child_nodes(n))


def _pure_iterable(e):
    for x in ast.walk(e):
        if isinstance(x, ast.Call):
            if not (isinstance(x.func, ast.Name) and x.func.id in ('reversed', 'list', 'tuple', 'sorted', 'range', 'enumerate', 'len')):
                return False
        elif isinstance(x, (ast.Lambda, ast.NamedExpr, ast.Await, ast.Yield, ast.YieldFrom, ast.GeneratorExp, ast.ListComp, ast.SetComp,
                            ast.DictComp)):
            return False
    return True


def _simple(e):
    return isinstance(e, ast.Name) or (isinstance(e, ast.Attribute) and _simple(e.value))


class _Desugar(ast.NodeTransformer):
    def __init__(self):
        self.n = 0
        self.report = {}

    def _note(self, what):
        self.report[what] = self.report.get(what, 0) + 1

    # ---- statements lists
    def _block(self, stmts):
        # `c = product(..)` consumed by the `for` that follows (and by nothing else): the call is the loop's iterable
        stmts = list(stmts)
        for i in range(len(stmts) - 1):
            a, b = stmts[i], stmts[i + 1]
            if (isinstance(a, ast.Assign) and len(a.targets) == 1 and isinstance(a.targets[0], ast.Name) and isinstance(a.value, ast.Call)
                    and ast.unparse(a.value.func).split('.')[-1] == 'product' and isinstance(b, ast.For) and isinstance(b.iter, ast.Name)
                    and b.iter.id == a.targets[0].id):
                nm = a.targets[0].id
                others = [x for s_ in stmts[i + 1:] for x in ast.walk(s_) if isinstance(x, ast.Name) and x.id == nm and x is not b.iter]
                if not others:
                    b.iter = a.value
                    stmts[i] = ast.copy_location(ast.Pass(), a)
        out = []
        for st in stmts:
            r = self.visit(st)
            if r is None:
                continue
            out.extend(r if isinstance(r, list) else [r])
        return out or [ast.Pass()]

    def generic_visit(self, node):
        for fld in ('body', 'orelse', 'finalbody'):
            sub = getattr(node, fld, None)
            if isinstance(sub, list) and sub and isinstance(sub[0], ast.stmt):
                setattr(node, fld, self._block(sub))
        for h in getattr(node, 'handlers', []) or []:
            h.body = self._block(h.body)
        if isinstance(node, ast.Match):
            for c in node.cases:
                c.body = self._block(c.body)
        return node

    def visit_Module(self, node):
        node.body = self._block(node.body)
        return node

    def visit_ClassDef(self, node):
        rec = self._record(node)
        if rec is not None:
            return rec
        node.body = self._block(node.body)
        return node

    def visit_FunctionDef(self, node):
        self._in_func = getattr(self, '_in_func', 0) + 1
        node.body = self._block(node.body)
        self._in_func -= 1
        return node

    visit_AsyncFunctionDef = visit_FunctionDef

    # ---- records
    def _record(self, node):
        bases = [ast.unparse(b).split('.')[-1] for b in node.bases]
        decos = [ast.unparse(d.func if isinstance(d, ast.Call) else d).split('.')[-1] for d in node.decorator_list]
        if not ('NamedTuple' in bases and len(bases) == 1 and not decos) and not (decos == ['dataclass'] and not bases):
            return None
        fields, defaults, methods = [], [], []
        for st in node.body:
            if isinstance(st, ast.Expr) and isinstance(st.value, ast.Constant) and isinstance(st.value.value, str):
                continue
            if isinstance(st, ast.AnnAssign) and isinstance(st.target, ast.Name):
                fields.append(st.target.id)
                if st.value is not None:
                    defaults.append(st.value)
                elif defaults:
                    return None
                continue
            if isinstance(st, ast.Pass):
                continue
            if isinstance(st, ast.FunctionDef) and not st.decorator_list and st.args.args and not st.name.startswith('__init') \
                    and st.name not in ('__new__', '__post_init__'):
                methods.append(st)
                continue
            return None
        if not fields:
            return None
        call = ast.Call(func=ast.Name(id='namedtuple', ctx=ast.Load()),
                        args=[ast.Constant(value=node.name), ast.List(elts=[ast.Constant(value=f) for f in fields], ctx=ast.Load())],
                        keywords=[ast.keyword(arg='defaults', value=ast.List(elts=defaults, ctx=ast.Load()))] if defaults else [])
        new = ast.Assign(targets=[ast.Name(id=node.name, ctx=ast.Store())], value=call, type_comment=None)
        ast.copy_location(new, node)
        ast.fix_missing_locations(new)
        self._note('record classes as namedtuple')
        out = [new]
        # methods of the record: R.m = lambda self: <expr> for a one-expression body (the form the code base uses for its records),
        # otherwise a module function bound to the attribute
        for m in methods:
            body = [x for x in m.body if not (isinstance(x, ast.Expr) and isinstance(x.value, ast.Constant))]
            tgt = ast.Attribute(value=ast.Name(id=node.name, ctx=ast.Load()), attr=m.name, ctx=ast.Store())
            if len(body) == 1 and isinstance(body[0], ast.Return) and body[0].value is not None:
                a = copy.deepcopy(m.args)
                for x in a.args + a.kwonlyargs + a.posonlyargs:
                    x.annotation = None
                val = ast.Lambda(args=a, body=body[0].value)
                st = ast.Assign(targets=[tgt], value=val, type_comment=None)
                out.append(ast.fix_missing_locations(ast.copy_location(st, m)))
            else:
                fn = copy.copy(m)
                fn.name = '_%s_%s' % (node.name, m.name.strip('_'))
                fn.body = self._block(m.body)
                out.append(fn)
                st = ast.Assign(targets=[tgt], value=ast.Name(id=fn.name, ctx=ast.Load()), type_comment=None)
                out.append(ast.fix_missing_locations(ast.copy_location(st, m)))
        return out

    # ---- annotated assignments inside functions
    def visit_AnnAssign(self, node):
        if getattr(self, '_in_func', 0) and isinstance(node.target, (ast.Name, ast.Attribute)):
            if node.value is None:
                self._note('annotations dropped')
                return None
            new = ast.Assign(targets=[node.target], value=node.value, type_comment=None)
            ast.copy_location(new, node)
            ast.fix_missing_locations(new)
            self._note('annotated assignments')
            return new
        return node

    # ---- with contextlib.suppress
    def visit_With(self, node):
        node.body = self._block(node.body)
        if len(node.items) == 1 and node.items[0].optional_vars is None and isinstance(node.items[0].context_expr, ast.Call) \
                and ast.unparse(node.items[0].context_expr.func).split('.')[-1] == 'suppress' and node.items[0].context_expr.args \
                and not node.items[0].context_expr.keywords:
            excs = node.items[0].context_expr.args
            ty = excs[0] if len(excs) == 1 else ast.Tuple(elts=list(excs), ctx=ast.Load())
            new = ast.Try(body=node.body, handlers=[ast.ExceptHandler(type=ty, name=None, body=[ast.Pass()])], orelse=[], finalbody=[])
            ast.copy_location(new, node)
            ast.fix_missing_locations(new)
            self._note('contextlib.suppress')
            return new
        return node

    # ---- for a, b, c in product(A, B, C): ...  ->  for a in A: for b in B: for c in C: ...
    def visit_For(self, node):
        self.generic_visit(node)
        it = node.iter
        if (isinstance(it, ast.Call) and ast.unparse(it.func).split('.')[-1] == 'product' and not it.keywords and len(it.args) >= 2
                and isinstance(node.target, (ast.Tuple, ast.List)) and len(node.target.elts) == len(it.args) and not node.orelse
                and all(isinstance(e, ast.Name) for e in node.target.elts)
                and not any(isinstance(x, (ast.Break, ast.Continue)) for b in node.body for x in _walk_same_loop(b))
                and all(_pure_iterable(a) for a in it.args)):
            # product() walks the last iterable fastest: the nesting order of the loops; nothing in the loop can leave only the innermost
            # level (no break / continue), and the iterables are plain reads, so evaluating the inner ones again changes nothing
            names = {e.id for e in node.target.elts}
            if not any(isinstance(x, ast.Name) and x.id in names for a in it.args for x in ast.walk(a)):
                body = node.body
                for tgt, seq in reversed(list(zip(node.target.elts, it.args))):
                    loop = ast.For(target=tgt, iter=seq, body=body, orelse=[], type_comment=None)
                    ast.copy_location(loop, node)
                    body = [loop]
                ast.fix_missing_locations(body[0])
                self._note('product() as nested loops')
                return body[0]
        return node

    # ---- L.extend(f(x) for x in xs)  ->  for x in xs: L.append(f(x))
    def visit_Expr(self, node):
        c = node.value
        if (isinstance(c, ast.Call) and isinstance(c.func, ast.Attribute) and c.func.attr == 'extend' and len(c.args) == 1 and not c.keywords
                and isinstance(c.args[0], (ast.GeneratorExp, ast.ListComp)) and len(c.args[0].generators) == 1
                and not c.args[0].generators[0].is_async and _simple(c.func.value)):
            g = c.args[0].generators[0]
            names = {y.id for y in ast.walk(g.target) if isinstance(y, ast.Name)}
            if not any(isinstance(y, ast.Name) and y.id in names for y in ast.walk(c.func.value)):
                app = ast.Expr(value=ast.Call(func=ast.Attribute(value=c.func.value, attr='append', ctx=ast.Load()), args=[c.args[0].elt], keywords=[]))
                body = [app]
                for cond in reversed(g.ifs):
                    body = [ast.If(test=cond, body=body, orelse=[])]
                tgt = copy.deepcopy(g.target)
                for y in ast.walk(tgt):
                    if isinstance(y, (ast.Name, ast.Tuple, ast.List)):
                        y.ctx = ast.Store()
                loop = ast.For(target=tgt, iter=g.iter, body=body, orelse=[], type_comment=None)
                ast.copy_location(loop, node)
                ast.fix_missing_locations(loop)
                self._note('extend(generator) as loop')
                return loop
        return node

    # ---- walrus at the head of an if test
    def visit_If(self, node):
        node.body = self._block(node.body)
        node.orelse = self._block(node.orelse) if node.orelse else []
        pre = []

        def head(e):
            """the expression the test evaluates first"""
            if isinstance(e, ast.BoolOp):
                return head(e.values[0])
            if isinstance(e, ast.Compare):
                return head(e.left)
            if isinstance(e, ast.UnaryOp):
                return head(e.operand)
            return e
        h = head(node.test)
        if isinstance(h, ast.NamedExpr) and isinstance(h.target, ast.Name) and sum(
                1 for x in ast.walk(node.test) if isinstance(x, ast.NamedExpr)) == 1:
            pre.append(ast.copy_location(ast.Assign(targets=[ast.Name(id=h.target.id, ctx=ast.Store())], value=h.value, type_comment=None), node))

            class R(ast.NodeTransformer):
                def visit_NamedExpr(s, n):
                    return ast.copy_location(ast.Name(id=n.target.id, ctx=ast.Load()), n)
            node.test = R().visit(node.test)
            ast.fix_missing_locations(pre[0])
            ast.fix_missing_locations(node)
            self._note('assignment expressions')
            return pre + [node]
        return node

    # ---- match
    def visit_Match(self, node):
        for c in node.cases:
            c.body = self._block(c.body)
        subj = node.subject
        pre = []
        if not _simple(subj):
            self.n += 1
            tmp = '_subject_%d' % self.n
            pre.append(ast.Assign(targets=[ast.Name(id=tmp, ctx=ast.Store())], value=subj, type_comment=None))
            subj = ast.Name(id=tmp, ctx=ast.Load())

        def test_of(p):
            """(test expression or None for 'always', bindings) - raises ValueError for patterns outside the supported forms"""
            if isinstance(p, ast.MatchValue):
                return ast.Compare(left=copy.deepcopy(subj), ops=[ast.Eq()], comparators=[p.value]), []
            if isinstance(p, ast.MatchSingleton):
                return ast.Compare(left=copy.deepcopy(subj), ops=[ast.Is()], comparators=[ast.Constant(value=p.value)]), []
            if isinstance(p, ast.MatchOr):
                if all(isinstance(q, ast.MatchValue) for q in p.patterns):
                    return ast.Compare(left=copy.deepcopy(subj), ops=[ast.In()], comparators=[ast.Tuple(elts=[q.value for q in p.patterns], ctx=ast.Load())]), []
                tests = []
                for q in p.patterns:
                    t, b = test_of(q)
                    if b or t is None:
                        raise ValueError
                    tests.append(t)
                return ast.BoolOp(op=ast.Or(), values=tests), []
            if isinstance(p, ast.MatchAs) and p.pattern is None:
                return None, ([p.name] if p.name else [])
            if isinstance(p, ast.MatchAs):
                t, b = test_of(p.pattern)
                return t, b + [p.name]
            if isinstance(p, ast.MatchClass) and not p.patterns:
                # C() / C(attr=value, ...): an instance test and equalities on the named attributes
                t = ast.Call(func=ast.Name(id='isinstance', ctx=ast.Load()), args=[copy.deepcopy(subj), p.cls], keywords=[])
                extra = []
                for a, q in zip(p.kwd_attrs, p.kwd_patterns):
                    if isinstance(q, ast.MatchValue):
                        extra.append(ast.Compare(left=ast.Attribute(value=copy.deepcopy(subj), attr=a, ctx=ast.Load()), ops=[ast.Eq()], comparators=[q.value]))
                    elif isinstance(q, ast.MatchSingleton):
                        extra.append(ast.Compare(left=ast.Attribute(value=copy.deepcopy(subj), attr=a, ctx=ast.Load()), ops=[ast.Is()], comparators=[ast.Constant(value=q.value)]))
                    else:
                        raise ValueError
                return (ast.BoolOp(op=ast.And(), values=[t] + extra) if extra else t), []
            raise ValueError

        def with_subject(e, names):
            """the guard with the names the pattern binds read as the subject (the binding happens before the guard runs)"""
            class R(ast.NodeTransformer):
                def visit_Name(s, n):
                    if n.id in names and isinstance(n.ctx, ast.Load):
                        return ast.copy_location(copy.deepcopy(subj), n)
                    return n
            return R().visit(copy.deepcopy(e))
        try:
            arms = []
            for c in node.cases:
                t, binds = test_of(c.pattern)
                body = [ast.Assign(targets=[ast.Name(id=b, ctx=ast.Store())], value=copy.deepcopy(subj), type_comment=None) for b in binds] + c.body
                if c.guard is not None:
                    g = with_subject(c.guard, set(binds)) if binds else c.guard
                    if any(isinstance(x, ast.NamedExpr) for x in ast.walk(g)):
                        raise ValueError
                    t = g if t is None else ast.BoolOp(op=ast.And(), values=[t, g])
                arms.append((t, body))
        except ValueError:
            return node
        chain = None
        for t, body in reversed(arms):
            if t is None:
                chain = body
            else:
                chain = [ast.If(test=t, body=body, orelse=chain or [])]
        out = pre + (chain or [ast.Pass()])
        for st in out:
            ast.copy_location(st, node)
            ast.fix_missing_locations(st)
        self._note('match statements')
        return out


_STRUCT = {'pack', 'unpack', 'unpack_from', 'pack_into', 'calcsize', 'iter_unpack'}


def _pure(e):
    if isinstance(e, (ast.Name, ast.Constant)):
        return True
    if isinstance(e, ast.Attribute):
        return _pure(e.value)
    if isinstance(e, ast.Call) and isinstance(e.func, ast.Name) and e.func.id == 'len' and len(e.args) == 1 and not e.keywords:
        return _pure(e.args[0])
    if isinstance(e, ast.BinOp):
        return _pure(e.left) and _pure(e.right)
    return False


class _StructFormats(ast.NodeTransformer):
    """the format argument of a struct call, written as an f-string or with str.format, in one form:
    'text{0}..{1}'.format(a, b) with explicit positions, one argument per distinct (side-effect free) expression"""

    def __init__(self, report):
        self.report = report

    def visit_Call(self, node):
        self.generic_visit(node)
        f = node.func
        name = f.id if isinstance(f, ast.Name) else f.attr if isinstance(f, ast.Attribute) and isinstance(f.value, ast.Name) and f.value.id == 'struct' else None
        if name not in _STRUCT or not node.args:
            return node
        new = self._canon(node.args[0])
        if new is not None:
            node.args[0] = ast.copy_location(new, node.args[0])
            ast.fix_missing_locations(node.args[0])
        return node

    def _canon(self, e):
        import string
        segs = []          # (literal, expr or None)
        if isinstance(e, ast.JoinedStr):
            for v in e.values:
                if isinstance(v, ast.Constant) and isinstance(v.value, str):
                    segs.append((v.value, None))
                elif isinstance(v, ast.FormattedValue) and v.conversion == -1 and v.format_spec is None:
                    segs.append(('', v.value))
                else:
                    return None
            what = 'f-string struct formats'
        elif (isinstance(e, ast.Call) and isinstance(e.func, ast.Attribute) and e.func.attr == 'format' and not e.keywords
              and isinstance(e.func.value, ast.Constant) and isinstance(e.func.value.value, str)
              and not any(isinstance(a, ast.Starred) for a in e.args)):
            auto = 0
            try:
                parsed = list(string.Formatter().parse(e.func.value.value))
            except ValueError:
                return None
            for lit, field, spec, conv in parsed:
                if lit:
                    segs.append((lit, None))
                if field is None:
                    continue
                if spec or conv:
                    return None
                if field == '':
                    idx = auto
                    auto += 1
                elif field.isdigit():
                    idx = int(field)
                else:
                    return None
                if idx >= len(e.args):
                    return None
                segs.append(('', e.args[idx]))
            what = None
        else:
            return None
        args, text = [], ''
        for lit, ex in segs:
            if ex is None:
                text += lit.replace('{', '{{').replace('}', '}}')
                continue
            k = None
            if _pure(ex):
                d = ast.dump(ex)
                for i, a in enumerate(args):
                    if ast.dump(a) == d:
                        k = i
            if k is None:
                args.append(ex)
                k = len(args) - 1
            text += '{%d}' % k
        if what:
            self.report[what] = self.report.get(what, 0) + 1
        if not args:
            return ast.Constant(value=text.replace('{{', '{').replace('}}', '}'))
        return ast.Call(func=ast.Attribute(value=ast.Constant(value=text), attr='format', ctx=ast.Load()), args=args, keywords=[])


class _IntBytes(ast.NodeTransformer):
    """int.to_bytes / int.from_bytes with the defaults Python 3.11 added written out: n.to_bytes(k) is n.to_bytes(k, 'big'),
    int.from_bytes(b) is int.from_bytes(b, 'big'), and i.to_bytes() - for a local that only ever holds integers (a counter) - is
    i.to_bytes(1, 'big').  (The code base's own to_bytes() methods take no argument, so only a receiver known to be an integer is
    touched in the no-argument form.)"""

    def __init__(self, report):
        self.report = report
        self.ints = [set()]

    def visit_FunctionDef(self, node):
        cand, bad = set(), set()
        for x in ast.walk(node):
            if isinstance(x, ast.Assign):
                for t in x.targets:
                    for y in ast.walk(t):
                        if isinstance(y, ast.Name) and isinstance(y.ctx, ast.Store):
                            if t is y and isinstance(x.value, ast.Constant) and type(x.value.value) is int:
                                cand.add(y.id)
                            else:
                                bad.add(y.id)
            elif isinstance(x, ast.AugAssign) and isinstance(x.target, ast.Name):
                if not (isinstance(x.value, ast.Constant) and type(x.value.value) is int and isinstance(x.op, (ast.Add, ast.Sub, ast.Mult))):
                    bad.add(x.target.id)
            elif isinstance(x, (ast.For, ast.comprehension)):
                rng = isinstance(x.iter, ast.Call) and isinstance(x.iter.func, ast.Name) and x.iter.func.id == 'range'
                for y in ast.walk(x.target):
                    if isinstance(y, ast.Name):
                        (cand if rng and y is x.target else bad).add(y.id)
            elif isinstance(x, (ast.NamedExpr, ast.AnnAssign)) and isinstance(x.target, ast.Name):
                bad.add(x.target.id)
            elif isinstance(x, ast.withitem) and x.optional_vars is not None or isinstance(x, ast.ExceptHandler) and x.name:
                for y in ast.walk(x.optional_vars) if isinstance(x, ast.withitem) else []:
                    if isinstance(y, ast.Name):
                        bad.add(y.id)
                if isinstance(x, ast.ExceptHandler):
                    bad.add(x.name)
            elif isinstance(x, (ast.Global, ast.Nonlocal)):
                bad.update(x.names)
        for a in node.args.args + node.args.kwonlyargs + node.args.posonlyargs + [z for z in (node.args.vararg, node.args.kwarg) if z]:
            bad.add(a.arg)
        self.ints.append(cand - bad)
        self.generic_visit(node)
        self.ints.pop()
        return node

    def visit_Call(self, node):
        self.generic_visit(node)
        f = node.func
        if not isinstance(f, ast.Attribute) or any(isinstance(a, ast.Starred) for a in node.args):
            return node
        kws = {k.arg: k.value for k in node.keywords}
        if f.attr == 'to_bytes' and None not in kws and set(kws) <= {'length', 'byteorder', 'signed'}:
            args = list(node.args)
            if 'length' in kws and not args:
                args.append(kws.pop('length'))
            if 'byteorder' in kws and len(args) == 1:
                args.append(kws.pop('byteorder'))
            if len(args) == 0 and isinstance(f.value, ast.Name) and f.value.id in self.ints[-1] and not kws:
                args = [ast.Constant(value=1), ast.Constant(value='big')]
            elif len(args) == 1 and 'byteorder' not in kws:
                args.append(ast.Constant(value='big'))
            else:
                return node
            if len(args) != len(node.args) or len(kws) != len(node.keywords):
                node.args = args
                node.keywords = [k for k in node.keywords if k.arg in kws]
                ast.fix_missing_locations(node)
                self.report['int.to_bytes defaults'] = self.report.get('int.to_bytes defaults', 0) + 1
        elif f.attr == 'from_bytes' and isinstance(f.value, ast.Name) and f.value.id == 'int' and set(kws) <= {'bytes', 'byteorder', 'signed'}:
            args = list(node.args)
            if 'bytes' in kws and not args:
                args.append(kws.pop('bytes'))
            if 'byteorder' in kws and len(args) == 1:
                args.append(kws.pop('byteorder'))
            elif len(args) == 1:
                args.append(ast.Constant(value='big'))
            else:
                return node
            node.args = args
            node.keywords = [k for k in node.keywords if k.arg in kws]
            ast.fix_missing_locations(node)
            self.report['int.from_bytes defaults'] = self.report.get('int.from_bytes defaults', 0) + 1
        return node


def desugar(tree):
    d = _Desugar()
    d.visit(tree)
    _StructFormats(d.report).visit(tree)
    _IntBytes(d.report).visit(tree)
    ast.fix_missing_locations(tree)
    return d.report
