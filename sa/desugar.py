"""Newer syntax brought to the forms the rest of the engine reads (runs right after parsing, before anything is indexed).

  match subject: case V: ... case A | B: ... case _:      ->  if subject == V: ... elif subject in (A, B): ... else: ...
                                                             (value / singleton / or / wildcard / capture patterns, with guards)
  if (x := e) <rest>:                                      ->  x = e; if x <rest>:        (the walrus is the first thing the test evaluates)
  with contextlib.suppress(E1, E2): BODY                   ->  try: BODY  except (E1, E2): pass
  x: T = v  (inside functions)                             ->  x = v;   x: T  -> nothing
  class R(NamedTuple): a: T; b: T = d   /  @dataclass class R: ...   (fields only)
                                                           ->  R = namedtuple('R', ['a', 'b'], defaults=[d])
Anything in these families that does not fit (class / sequence / mapping patterns, a walrus deeper inside a test, records with
methods) is left as it is; the analyses then stop on it with a named construct instead of guessing."""
import ast
import copy


def _simple(e):
    return isinstance(e, ast.Name) or (isinstance(e, ast.Attribute) and _simple(e.value))


class _Desugar(ast.NodeTransformer):
    def __init__(self):
        self.n = 0
        self.report = {}

    def _note(self, what):
        self.report[what] = self.report.get(what, 0) + 1

    # ---- statements lists
    def _block(self, stmts):
        out = []
        for st in stmts:
            r = self.visit(st)
            if r is None:
                continue
            out.extend(r if isinstance(r, list) else [r])
        return out or [ast.Pass()]

    def generic_visit(self, node):
        for fld in ('body', 'orelse', 'finalbody'):
            sub = getattr(node, fld, None)
            if isinstance(sub, list) and sub and isinstance(sub[0], ast.stmt):
                setattr(node, fld, self._block(sub))
        for h in getattr(node, 'handlers', []) or []:
            h.body = self._block(h.body)
        if isinstance(node, ast.Match):
            for c in node.cases:
                c.body = self._block(c.body)
        return node

    def visit_Module(self, node):
        node.body = self._block(node.body)
        return node

    def visit_ClassDef(self, node):
        rec = self._record(node)
        if rec is not None:
            return rec
        node.body = self._block(node.body)
        return node

    def visit_FunctionDef(self, node):
        self._in_func = getattr(self, '_in_func', 0) + 1
        node.body = self._block(node.body)
        self._in_func -= 1
        return node

    visit_AsyncFunctionDef = visit_FunctionDef

    # ---- records
    def _record(self, node):
        bases = [ast.unparse(b).split('.')[-1] for b in node.bases]
        decos = [ast.unparse(d.func if isinstance(d, ast.Call) else d).split('.')[-1] for d in node.decorator_list]
        if not ('NamedTuple' in bases and len(bases) == 1 and not decos) and not (decos == ['dataclass'] and not bases):
            return None
        fields, defaults = [], []
        for st in node.body:
            if isinstance(st, ast.Expr) and isinstance(st.value, ast.Constant) and isinstance(st.value.value, str):
                continue
            if isinstance(st, ast.AnnAssign) and isinstance(st.target, ast.Name):
                fields.append(st.target.id)
                if st.value is not None:
                    defaults.append(st.value)
                elif defaults:
                    return None
                continue
            if isinstance(st, ast.Pass):
                continue
            return None
        if not fields:
            return None
        call = ast.Call(func=ast.Name(id='namedtuple', ctx=ast.Load()),
                        args=[ast.Constant(value=node.name), ast.List(elts=[ast.Constant(value=f) for f in fields], ctx=ast.Load())],
                        keywords=[ast.keyword(arg='defaults', value=ast.List(elts=defaults, ctx=ast.Load()))] if defaults else [])
        new = ast.Assign(targets=[ast.Name(id=node.name, ctx=ast.Store())], value=call, type_comment=None)
        ast.copy_location(new, node)
        ast.fix_missing_locations(new)
        self._note('record classes as namedtuple')
        return new

    # ---- annotated assignments inside functions
    def visit_AnnAssign(self, node):
        if getattr(self, '_in_func', 0) and isinstance(node.target, (ast.Name, ast.Attribute)):
            if node.value is None:
                self._note('annotations dropped')
                return None
            new = ast.Assign(targets=[node.target], value=node.value, type_comment=None)
            ast.copy_location(new, node)
            ast.fix_missing_locations(new)
            self._note('annotated assignments')
            return new
        return node

    # ---- with contextlib.suppress
    def visit_With(self, node):
        node.body = self._block(node.body)
        if len(node.items) == 1 and node.items[0].optional_vars is None and isinstance(node.items[0].context_expr, ast.Call) \
                and ast.unparse(node.items[0].context_expr.func).split('.')[-1] == 'suppress' and node.items[0].context_expr.args \
                and not node.items[0].context_expr.keywords:
            excs = node.items[0].context_expr.args
            ty = excs[0] if len(excs) == 1 else ast.Tuple(elts=list(excs), ctx=ast.Load())
            new = ast.Try(body=node.body, handlers=[ast.ExceptHandler(type=ty, name=None, body=[ast.Pass()])], orelse=[], finalbody=[])
            ast.copy_location(new, node)
            ast.fix_missing_locations(new)
            self._note('contextlib.suppress')
            return new
        return node

    # ---- walrus at the head of an if test
    def visit_If(self, node):
        node.body = self._block(node.body)
        node.orelse = self._block(node.orelse) if node.orelse else []
        pre = []

        def head(e):
            """the expression the test evaluates first"""
            if isinstance(e, ast.BoolOp):
                return head(e.values[0])
            if isinstance(e, ast.Compare):
                return head(e.left)
            if isinstance(e, ast.UnaryOp):
                return head(e.operand)
            return e
        h = head(node.test)
        if isinstance(h, ast.NamedExpr) and isinstance(h.target, ast.Name) and sum(
                1 for x in ast.walk(node.test) if isinstance(x, ast.NamedExpr)) == 1:
            pre.append(ast.copy_location(ast.Assign(targets=[ast.Name(id=h.target.id, ctx=ast.Store())], value=h.value, type_comment=None), node))

            class R(ast.NodeTransformer):
                def visit_NamedExpr(s, n):
                    return ast.copy_location(ast.Name(id=n.target.id, ctx=ast.Load()), n)
            node.test = R().visit(node.test)
            ast.fix_missing_locations(pre[0])
            ast.fix_missing_locations(node)
            self._note('assignment expressions')
            return pre + [node]
        return node

    # ---- match
    def visit_Match(self, node):
        for c in node.cases:
            c.body = self._block(c.body)
        subj = node.subject
        pre = []
        if not _simple(subj):
            self.n += 1
            tmp = '_subject_%d' % self.n
            pre.append(ast.Assign(targets=[ast.Name(id=tmp, ctx=ast.Store())], value=subj, type_comment=None))
            subj = ast.Name(id=tmp, ctx=ast.Load())

        def test_of(p):
            """(test expression or None for 'always', bindings) - raises ValueError for patterns that are not plain values"""
            if isinstance(p, ast.MatchValue):
                return ast.Compare(left=copy.deepcopy(subj), ops=[ast.Eq()], comparators=[p.value]), []
            if isinstance(p, ast.MatchSingleton):
                return ast.Compare(left=copy.deepcopy(subj), ops=[ast.Is()], comparators=[ast.Constant(value=p.value)]), []
            if isinstance(p, ast.MatchOr):
                vals = []
                for q in p.patterns:
                    if not isinstance(q, ast.MatchValue):
                        raise ValueError
                    vals.append(q.value)
                return ast.Compare(left=copy.deepcopy(subj), ops=[ast.In()], comparators=[ast.Tuple(elts=vals, ctx=ast.Load())]), []
            if isinstance(p, ast.MatchAs) and p.pattern is None:
                return None, ([p.name] if p.name else [])
            raise ValueError
        try:
            arms = []
            for c in node.cases:
                t, binds = test_of(c.pattern)
                body = [ast.Assign(targets=[ast.Name(id=b, ctx=ast.Store())], value=copy.deepcopy(subj), type_comment=None) for b in binds] + c.body
                if c.guard is not None:
                    if binds:
                        raise ValueError
                    t = c.guard if t is None else ast.BoolOp(op=ast.And(), values=[t, c.guard])
                arms.append((t, body))
        except ValueError:
            return node
        chain = None
        for t, body in reversed(arms):
            if t is None:
                chain = body
            else:
                chain = [ast.If(test=t, body=body, orelse=chain or [])]
        out = pre + (chain or [ast.Pass()])
        for st in out:
            ast.copy_location(st, node)
            ast.fix_missing_locations(st)
        self._note('match statements')
        return out


def desugar(tree):
    d = _Desugar()
    d.visit(tree)
    ast.fix_missing_locations(tree)
    return d.report
