"""Program model of /repo (DESIGN 2.1): modules, classes, functions, constants, enums.

Nothing here imports or executes a repository module: every fact is read from the
syntax tree of the current working tree.
"""
import ast
import glob
import hashlib
import os

REPO = os.environ.get('VERIF_REPO', '/repo')


class AnalysisError(Exception):
    """Anchor vanished / unrecognised shape: the check exits 2, never 0 or 1."""


def src(node):
    """Normalised source text of a node (position independent)."""
    if node is None:
        return ''
    if isinstance(node, str):
        return node
    return ast.unparse(node)


def walk_no_nested(node, include_lambda=True):
    """ast.walk that does not descend into nested function/class definitions."""
    todo = [node]
    first = True
    while todo:
        n = todo.pop()
        if not first and isinstance(n, (ast.FunctionDef, ast.AsyncFunctionDef, ast.ClassDef)):
            continue
        if not first and not include_lambda and isinstance(n, ast.Lambda):
            continue
        first = False
        yield n
        todo.extend(reversed(list(ast.iter_child_nodes(n))))


def attr_chain(node):
    """'self.request.payloads' for nested Attribute/Name, else None."""
    parts = []
    while isinstance(node, ast.Attribute):
        parts.append(node.attr)
        node = node.value
    if isinstance(node, ast.Name):
        parts.append(node.id)
        return '.'.join(reversed(parts))
    return None


class FuncInfo:
    def __init__(self, module, cls, node, qual):
        self.module = module          # Module
        self.cls = cls                # ClassInfo or None
        self.node = node              # ast.FunctionDef
        self.qual = qual              # 'ikesa.IkeSa.process_message'
        self.name = node.name
        decos = [src(d) for d in node.decorator_list]
        self.is_classmethod = 'classmethod' in decos
        self.is_staticmethod = 'staticmethod' in decos
        self.is_property = 'property' in decos
        self.params = [a.arg for a in node.args.posonlyargs + node.args.args]
        self.kwonly = [a.arg for a in node.args.kwonlyargs]
        self._cfg = None

    @property
    def self_name(self):
        if self.cls is None or self.is_staticmethod:
            return None
        return self.params[0] if self.params else None

    def call_params(self):
        """parameters as seen by a caller (without self/cls)."""
        if self.cls is not None and not self.is_staticmethod:
            return self.params[1:]
        return self.params

    def defaults(self):
        """param name -> default ast node"""
        a = self.node.args
        pos = a.posonlyargs + a.args
        out = {}
        for p, d in zip(pos[len(pos) - len(a.defaults):], a.defaults):
            out[p.arg] = d
        for p, d in zip(a.kwonlyargs, a.kw_defaults):
            if d is not None:
                out[p.arg] = d
        return out

    def __repr__(self):
        return '<Func %s>' % self.qual


class ClassInfo:
    def __init__(self, module, node, qual, outer=None):
        self.module = module
        self.node = node
        self.qual = qual              # 'message.Payload.Type'
        self.name = node.name
        self.outer = outer
        self.base_exprs = [src(b) for b in node.bases]
        self.bases = []               # resolved ClassInfo list
        self.ext_bases = []           # unresolved base names (library)
        self.methods = {}
        self.attrs = {}               # class-level assignments name -> ast value
        self.nested = {}

    def mro(self):
        out, todo = [], [self]
        while todo:
            c = todo.pop(0)
            if c not in out:
                out.append(c)
                todo.extend(c.bases)
        return out

    def lookup(self, name):
        for c in self.mro():
            if name in c.methods:
                return c.methods[name]
        return None

    def lookup_attr(self, name):
        for c in self.mro():
            if name in c.attrs:
                return c.attrs[name]
        return None

    def all_ext_bases(self):
        out = []
        for c in self.mro():
            out.extend(c.ext_bases)
        return out

    def is_subclass_of(self, other):
        return other in self.mro()

    def __repr__(self):
        return '<Class %s>' % self.qual


class Module:
    def __init__(self, name, path, text):
        self.name = name
        self.path = path
        self.text = text
        self.sha256 = hashlib.sha256(text.encode()).hexdigest()
        self.tree = ast.parse(text, filename=path)
        self.classes = {}      # top-level name -> ClassInfo
        self.functions = {}    # top-level name -> FuncInfo
        self.consts = {}       # top-level name -> ast value
        self.imports = {}      # local name -> ('module', modname) | ('from', modname, name)
        self.lines = text.splitlines()


class Program:
    def __init__(self, root=None, normalise=True):
        self.root = root or REPO
        self.modules = {}
        self.classes = {}      # qual -> ClassInfo
        self.functions = {}    # qual -> FuncInfo
        paths = sorted(p for p in glob.glob(os.path.join(self.root, '*.py'))
                       if not os.path.basename(p).startswith('test_'))
        if not paths:
            raise AnalysisError('no python modules found under %s' % self.root)
        for p in paths:
            name = os.path.basename(p)[:-3]
            with open(p, encoding='utf-8') as f:
                text = f.read()
            try:
                self.modules[name] = Module(name, p, text)
            except SyntaxError as ex:
                raise AnalysisError('module %s does not parse: %s' % (p, ex))
        self.desugared = {}
        if normalise:
            from .desugar import desugar
            for name, m in self.modules.items():
                r = desugar(m.tree)
                if r:
                    self.desugared[name] = r
        self.reindex()
        self.normalisation = None
        if normalise:
            from .normalise import Inliner
            from .resolve import Resolver
            self.normalisation = Inliner(self, Resolver).run()

    def reindex(self):
        """(re)build the class / function / constant indexes from the module trees"""
        self.classes = {}
        self.functions = {}
        for m in self.modules.values():
            m.classes, m.functions, m.consts, m.imports = {}, {}, {}, {}
            self._index_module(m)
        for c in list(self.classes.values()):
            self._resolve_bases(c)
        self._parent = {}

    # ------------------------------------------------------------------ indexing
    def _index_module(self, m):
        for st in m.tree.body:
            if isinstance(st, ast.Import):
                for a in st.names:
                    m.imports[a.asname or a.name.split('.')[0]] = ('module', a.name)
            elif isinstance(st, ast.ImportFrom):
                for a in st.names:
                    m.imports[a.asname or a.name] = ('from', st.module, a.name)
            elif isinstance(st, ast.ClassDef):
                m.classes[st.name] = self._index_class(m, st, m.name + '.' + st.name, None)
            elif isinstance(st, (ast.FunctionDef, ast.AsyncFunctionDef)):
                f = FuncInfo(m, None, st, m.name + '.' + st.name)
                m.functions[st.name] = f
                self.functions[f.qual] = f
            elif isinstance(st, ast.Assign):
                for t in st.targets:
                    if isinstance(t, ast.Name):
                        m.consts[t.id] = st.value
                    elif isinstance(t, ast.Attribute):
                        # ChildSa.__str__ = lambda ... : record as pseudo-method attr
                        ch = attr_chain(t)
                        if ch:
                            m.consts[ch] = st.value

    def _index_class(self, m, node, qual, outer):
        c = ClassInfo(m, node, qual, outer)
        self.classes[qual] = c
        for st in node.body:
            if isinstance(st, (ast.FunctionDef, ast.AsyncFunctionDef)):
                f = FuncInfo(m, c, st, qual + '.' + st.name)
                # property setters etc. are not used in the repo; last def wins
                c.methods[st.name] = f
                self.functions[f.qual] = f
            elif isinstance(st, ast.ClassDef):
                c.nested[st.name] = self._index_class(m, st, qual + '.' + st.name, c)
            elif isinstance(st, ast.Assign):
                for t in st.targets:
                    if isinstance(t, ast.Name):
                        c.attrs[t.id] = st.value
            elif isinstance(st, ast.AnnAssign) and isinstance(st.target, ast.Name) and st.value is not None:
                c.attrs[st.target.id] = st.value
        return c

    def _resolve_bases(self, c):
        for b in c.node.bases:
            r = self.resolve_class_expr(b, c.module, c.outer)
            if r is not None:
                c.bases.append(r)
            else:
                c.ext_bases.append(src(b))

    # ------------------------------------------------------------------ resolution
    def resolve_class_expr(self, expr, module, scope_cls=None):
        """Resolve an expression naming a class (Name / dotted Attribute) to ClassInfo."""
        ch = attr_chain(expr) if not isinstance(expr, str) else expr
        if ch is None:
            return None
        parts = ch.split('.')
        # enclosing class scopes (nested class bodies see outer class names only via
        # the module, but `Payload.Type` style is via module names) - try scope first
        cur = None
        head = parts[0]
        sc = scope_cls
        while sc is not None and cur is None:
            if head in sc.nested:
                cur = sc.nested[head]
            elif head == sc.name:
                cur = sc
            sc = sc.outer
        if cur is None:
            if head in module.classes:
                cur = module.classes[head]
            elif head in module.imports:
                imp = module.imports[head]
                if imp[0] == 'from' and imp[1] in self.modules:
                    tm = self.modules[imp[1]]
                    if imp[2] in tm.classes:
                        cur = tm.classes[imp[2]]
                    else:
                        return None
                elif imp[0] == 'module' and imp[1] in self.modules:
                    tm = self.modules[imp[1]]
                    if len(parts) < 2 or parts[1] not in tm.classes:
                        return None
                    cur = tm.classes[parts[1]]
                    parts = parts[1:]
                else:
                    return None
            else:
                return None
        for p in parts[1:]:
            if p in cur.nested:
                cur = cur.nested[p]
            else:
                return None
        return cur

    def resolve_module_func(self, expr, module):
        """Name or module.attr naming a top-level repo function."""
        ch = attr_chain(expr)
        if ch is None:
            return None
        parts = ch.split('.')
        if len(parts) == 1:
            if parts[0] in module.functions:
                return module.functions[parts[0]]
            imp = module.imports.get(parts[0])
            if imp and imp[0] == 'from' and imp[1] in self.modules:
                return self.modules[imp[1]].functions.get(imp[2])
        elif len(parts) == 2:
            imp = module.imports.get(parts[0])
            if imp and imp[0] == 'module' and imp[1] in self.modules:
                return self.modules[imp[1]].functions.get(parts[1])
        return None

    def import_origin(self, name, module):
        """('from', 'struct', 'unpack_from') / ('module', 'logging') / None for a local name."""
        return module.imports.get(name)

    # ------------------------------------------------------------------ anchors
    def func(self, qual):
        f = self.functions.get(qual)
        if f is None:
            raise AnalysisError('anchor vanished: function %s' % qual)
        return f

    def cls(self, qual):
        c = self.classes.get(qual)
        if c is None:
            raise AnalysisError('anchor vanished: class %s' % qual)
        return c

    def module(self, name):
        m = self.modules.get(name)
        if m is None:
            raise AnalysisError('anchor vanished: module %s' % name)
        return m

    def methods_named(self, name):
        return [f for f in self.functions.values() if f.name == name and f.cls is not None]

    # ------------------------------------------------------------------ constants
    def const_eval(self, expr, module, scope_cls=None, _depth=0):
        """Evaluate a constant expression (ints, bytes, str, tuples, |, <<, +, names of
        module/class constants, enum members).  Returns the Python value or raises
        AnalysisError."""
        if _depth > 20:
            raise AnalysisError('const_eval: recursion')
        e = expr
        if isinstance(e, ast.Constant):
            return e.value
        if isinstance(e, ast.Tuple):
            return tuple(self.const_eval(x, module, scope_cls, _depth + 1) for x in e.elts)
        if isinstance(e, ast.List):
            return [self.const_eval(x, module, scope_cls, _depth + 1) for x in e.elts]
        if isinstance(e, ast.UnaryOp):
            v = self.const_eval(e.operand, module, scope_cls, _depth + 1)
            if isinstance(e.op, ast.USub):
                return -v
            if isinstance(e.op, ast.Invert):
                return ~v
            if isinstance(e.op, ast.Not):
                return not v
        if isinstance(e, ast.BinOp):
            a = self.const_eval(e.left, module, scope_cls, _depth + 1)
            b = self.const_eval(e.right, module, scope_cls, _depth + 1)
            ops = {ast.Add: lambda: a + b, ast.Sub: lambda: a - b, ast.Mult: lambda: a * b,
                   ast.BitOr: lambda: a | b, ast.BitAnd: lambda: a & b, ast.LShift: lambda: a << b,
                   ast.RShift: lambda: a >> b, ast.FloorDiv: lambda: a // b, ast.Pow: lambda: a ** b,
                   ast.Mod: lambda: a % b, ast.BitXor: lambda: a ^ b}
            for k, fn in ops.items():
                if isinstance(e.op, k):
                    return fn()
        if isinstance(e, (ast.Name, ast.Attribute)):
            ch = attr_chain(e)
            if ch is not None:
                v = self._const_name(ch, module, scope_cls, _depth)
                if v is not _MISSING:
                    return v
        raise AnalysisError('const_eval: cannot evaluate %s' % src(e))

    def _const_name(self, ch, module, scope_cls, depth):
        parts = ch.split('.')
        # class-scope constant
        sc = scope_cls
        while sc is not None:
            if len(parts) == 1 and parts[0] in sc.attrs:
                return self.const_eval(sc.attrs[parts[0]], module, sc, depth + 1)
            sc = sc.outer
        if len(parts) == 1 and parts[0] in module.consts:
            return self.const_eval(module.consts[parts[0]], module, None, depth + 1)
        if len(parts) == 1:
            imp = module.imports.get(parts[0])
            if imp and imp[0] == 'from' and imp[1] in self.modules:
                tm = self.modules[imp[1]]
                if imp[2] in tm.consts:
                    return self.const_eval(tm.consts[imp[2]], tm, None, depth + 1)
        # module.CONST
        imp = module.imports.get(parts[0])
        if imp and imp[0] == 'module' and imp[1] in self.modules and len(parts) == 2:
            tm = self.modules[imp[1]]
            if parts[1] in tm.consts:
                return self.const_eval(tm.consts[parts[1]], tm, None, depth + 1)
        if imp and imp[0] == 'module' and imp[1] == 'socket' and len(parts) == 2:
            import socket as _s
            if hasattr(_s, parts[1]) and isinstance(getattr(_s, parts[1]), int):
                return int(getattr(_s, parts[1]))
        # Class.MEMBER (enum member or class constant)
        if len(parts) >= 2:
            c = self.resolve_class_expr('.'.join(parts[:-1]), module, scope_cls)
            if c is not None:
                v = c.lookup_attr(parts[-1])
                if v is not None:
                    return self.const_eval(v, c.module, c, depth + 1)
        return _MISSING

    def enum_members(self, qual):
        """name -> int for a class whose body assigns integer constants."""
        c = self.cls(qual)
        out = {}
        for k, v in c.attrs.items():
            try:
                val = self.const_eval(v, c.module, c)
            except AnalysisError:
                continue
            if isinstance(val, int) and not isinstance(val, bool):
                out[k] = val
        return out

    def is_safe_enum(self, c):
        """SafeIntEnum subclasses never raise on construction (they define _missing_)."""
        for k in c.mro():
            if '_missing_' in k.methods:
                return True
        return False

    def is_enum(self, c):
        return any(b in ('Enum', 'IntEnum', 'enum.Enum', 'enum.IntEnum') for b in c.all_ext_bases())

    # ------------------------------------------------------------------ misc
    def digest(self):
        return {m.name + '.py': m.sha256 for m in self.modules.values()}

    def all_functions(self):
        return list(self.functions.values())

    def loc(self, fi_or_module, node):
        m = fi_or_module.module if isinstance(fi_or_module, (FuncInfo, ClassInfo)) else fi_or_module
        return '%s:%s' % (os.path.basename(m.path), getattr(node, 'lineno', '?'))


_MISSING = object()


def namedtuple_fields(prog, module_name, name):
    """Field list of `X = namedtuple('X', [...])` declared at module level."""
    m = prog.module(module_name)
    v = m.consts.get(name)
    if not (isinstance(v, ast.Call) and src(v.func).endswith('namedtuple') and len(v.args) == 2):
        raise AnalysisError('anchor vanished: namedtuple %s.%s' % (module_name, name))
    fields = prog.const_eval(v.args[1], m)
    if isinstance(fields, str):
        fields = fields.replace(',', ' ').split()
    return list(fields)
