"""A12 value terms (gated single assignment): what an expression *is* in terms of the function's parameters, object
attributes, globals and calls - independent of how many local variables, if-statements, conditional expressions, loops
or comprehensions the source uses to spell it.

A syntax-directed forward walk over a function body with an environment  local name -> term.  Assignments bind terms,
`if` merges the two environments with a gated term  cond(test, a, b), tuple unpacking selects components, `x += e`
folds, lists / dicts / byte strings that are built incrementally (append, extend, +=, d[k] = v - also inside loops)
become one structured term whose items carry the path condition under which they are added, and a loop that appends
f(x) for each x is the same term as the comprehension [f(x) for x in xs].  Every call met on the way is recorded with
its callee (resolved by sa.resolve), its arguments bound to the callee's parameter names, and the conjunction of
conditions on the structured path to it; a branch that always leaves (return / raise / continue / break) adds the
negated test to everything that follows, so a guard clause and a nested if give the same path condition.

Nothing is executed and no path is enumerated: the result is a normal form of the source, and rules compare normal
forms.  Expected values are written as Python expressions over the parameters and evaluated by the same walk
(`SVal.expr`), so both sides are normalised alike.

Terms are nested tuples:
  ('param', n) ('global', dotted) ('const', type, v) ('attr', t, n) ('call', callee, recv, ((p, t), ...))
  ('add', (t, ...)) ('bin', op, a, b) ('not', t) ('cmp', op, a, b) ('and'|'or', (t, ...)) ('cond', c, a, b)
  ('index', t, i) ('slice', t, lo, hi, st) ('tuple', (t, ...)) ('list', (item, ...)) ('dict', (entry, ...))
  ('elem', iter, id) ('idx', seq, id) ('fstr', (part, ...)) ('lambda', (n, ...), t) ('loopvar', n, id) ('undef',)
  items:   t | ('when', pc, t) | ('each', id, iter, pc, t) | ('star', t)
  entries: (k, v) | ('when', pc, k, v)
  pc:      ((test term, polarity), ...)
"""
import ast

from .model import AnalysisError, attr_chain, src, walk_no_nested

UNDEF = ('undef',)
NONE = ('const', 'NoneType', None)
TRUE = ('const', 'bool', True)
FALSE = ('const', 'bool', False)

_BUILTINS = {'len', 'range', 'enumerate', 'zip', 'int', 'bool', 'str', 'bytes', 'bytearray', 'list', 'dict', 'tuple', 'set',
             'sorted', 'reversed', 'min', 'max', 'sum', 'any', 'all', 'isinstance', 'getattr', 'hasattr', 'next', 'iter',
             'print', 'repr', 'hex', 'type', 'map', 'filter', 'abs', 'divmod', 'open', 'super', 'id', 'format', 'float',
             'frozenset', 'ord', 'chr', 'round', 'callable', 'vars', 'memoryview', 'object', 'Exception', 'ValueError',
             'KeyError', 'IndexError', 'TypeError', 'OSError', 'StopIteration', 'AttributeError', 'RuntimeError',
             'NotImplementedError', 'NotImplemented', 'BaseException', 'KeyboardInterrupt', 'AssertionError'}

_BINOPS = {ast.Add: '+', ast.Sub: '-', ast.Mult: '*', ast.FloorDiv: '//', ast.Mod: '%', ast.LShift: '<<', ast.RShift: '>>',
           ast.BitAnd: '&', ast.BitOr: '|', ast.BitXor: '^', ast.Div: '/', ast.Pow: '**', ast.MatMult: '@'}
_CMPOPS = {ast.Eq: '==', ast.NotEq: '!=', ast.Lt: '<', ast.LtE: '<=', ast.Gt: '>', ast.GtE: '>=', ast.Is: 'is',
           ast.IsNot: 'is not', ast.In: 'in', ast.NotIn: 'not in'}


# parameter names of the library callables the repository passes keyword arguments to (or might): positional and keyword
# spellings of one call become one term
LIB_PARAMS = {
    'DHParameterNumbers': ['p', 'g', 'q'], 'DHPublicNumbers': ['y', 'parameter_numbers'],
    'EllipticCurvePublicNumbers': ['x', 'y', 'curve'], 'HMAC': ['key', 'msg', 'digestmod'], 'hmac.new': ['key', 'msg', 'digestmod'],
    'from_bytes': ['bytes', 'byteorder'], 'to_bytes': ['length', 'byteorder'], 'ciphers.Cipher': ['algorithm', 'mode', 'backend'],
    'generate_private_key': ['curve', 'backend'], 'public_key': ['backend'], 'parameters': ['backend'],
    'socket.socket': ['family', 'type', 'proto'], 'ip_network': ['address', 'strict'], 'randint': ['a', 'b'],
    'urandom': ['size'],
}


def lib_params(lib, name):
    if lib is None:
        return None
    for k, v in LIB_PARAMS.items():
        if lib == k or lib.endswith('.' + k) or (name == k and lib.startswith('method.')):
            return v
    return None


def const(v):
    return ('const', type(v).__name__, v)


def is_const(t):
    return isinstance(t, tuple) and t and t[0] == 'const'


def cval(t):
    return t[2]


# ------------------------------------------------------------------------------------------------- smart constructors
def mk_not(t):
    if t[0] == 'not':
        return t[1]
    if is_const(t):
        return const(not cval(t))
    if t[0] == 'cmp' and t[1] in ('<', '<='):
        # integers / lengths: not (a < b) == b <= a
        return ('cmp', '<=' if t[1] == '<' else '<', t[3], t[2])
    if t[0] == 'and':
        return mk_bool('or', tuple(mk_not(x) for x in t[1]))
    if t[0] == 'or':
        return mk_bool('and', tuple(mk_not(x) for x in t[1]))
    return ('not', t)


def mk_bool(op, items):
    out = []
    for x in items:
        if x[0] == op:
            out.extend(x[1])
        else:
            out.append(x)
    res = []
    for i, x in enumerate(out):
        if is_const(x) and i < len(out) - 1:
            if bool(cval(x)) == (op == 'and'):
                continue            # neutral element
            res.append(x)
            break                   # short circuit
        if x not in res:
            res.append(x)
    if len(res) == 1:
        return res[0]
    if not res:
        return const(op == 'and')
    return (op, tuple(res))


def as_display(t):
    """a record built in place, iterated: its field values in field order (the constructor term keeps them in that order)"""
    if t[0] == 'call' and isinstance(t[1], str) and t[1].startswith('namedtuple.') and t[3] and all(
            isinstance(k, str) and not k.startswith('#') and k != '**' and v[0] != 'star' for k, v in t[3]):
        return ('tuple', tuple(v for _, v in t[3]))
    return t


def _boolean(t):
    """the term can only be True or False"""
    if t in (TRUE, FALSE):
        return True
    if t[0] in ('cmp', 'not'):
        return True
    if t[0] in ('and', 'or'):
        return all(_boolean(x) for x in t[1])
    if t[0] == 'cond':
        return _boolean(t[2]) and _boolean(t[3])
    return False


def mk_cond(c, a, b):
    if is_const(c):
        return a if cval(c) else b
    if a == b:
        return a
    if c[0] == 'not':
        return mk_cond(c[1], b, a)
    if a == TRUE and b == FALSE:
        return c
    if a == FALSE and b == TRUE:
        return mk_not(c)
    # a gate with a truth value on one side and a test on the other is the conjunction / disjunction it spells out
    if a == FALSE and _boolean(b):
        return mk_bool('and', (mk_not(c), b))
    if b == TRUE and _boolean(a):
        return mk_bool('or', (mk_not(c), a))
    if _boolean(c):
        if b == FALSE and _boolean(a):
            return mk_bool('and', (c, a))
        if a == TRUE and _boolean(b):
            return mk_bool('or', (c, b))
    # nested gates on the same test collapse
    if a[0] == 'cond' and a[1] == c:
        a = a[2]
    if b[0] == 'cond' and b[1] == c:
        b = b[3]
    if a == b:
        return a
    # common structure is factored out of the gate: cond(c, f(x), f(y)) = f(cond(c, x, y)); same for tuples and attributes
    if a[0] == 'call' and b[0] == 'call' and a[1] == b[1] and len(a) == len(b) and [k for k, _ in a[3]] == [k for k, _ in b[3]] \
            and isinstance(a[1], str) and not a[1].startswith('new ') and (a[2] == b[2] or a[2][0] != 'const'):
        args = tuple((k, mk_cond(c, x, y)) for (k, x), (_, y) in zip(a[3], b[3]))
        return ('call', a[1], mk_cond(c, a[2], b[2]), args) + tuple(a[4:])
    if a[0] == 'tuple' and b[0] == 'tuple' and len(a[1]) == len(b[1]):
        return ('tuple', tuple(mk_cond(c, x, y) for x, y in zip(a[1], b[1])))
    if a[0] == 'attr' and b[0] == 'attr' and a[2] == b[2]:
        return ('attr', mk_cond(c, a[1], b[1]), a[2])
    return ('cond', c, a, b)


def _fold(op, x, y):
    try:
        return {'+': lambda: x + y, '-': lambda: x - y, '*': lambda: x * y, '//': lambda: x // y, '%': lambda: x % y,
                '<<': lambda: x << y, '>>': lambda: x >> y, '&': lambda: x & y, '|': lambda: x | y, '^': lambda: x ^ y}[op]()
    except Exception:
        return None


def mk_bin(op, a, b):
    if op == '+':
        items = (a[1] if a[0] == 'add' else (a,)) + (b[1] if b[0] == 'add' else (b,))
        # fold adjacent integer / bytes constants
        out = []
        for x in items:
            if out and is_const(x) and is_const(out[-1]) and type(cval(x)) is type(cval(out[-1])) and not isinstance(
                    cval(x), bool):
                v = _fold('+', cval(out[-1]), cval(x))
                if v is not None:
                    out[-1] = const(v)
                    continue
            out.append(x)
        # commutative integer part: move integer constants to the end and add them up
        ints = [x for x in out if is_const(x) and x[1] == 'int']
        if ints and not any(is_const(x) and x[1] in ('bytes', 'str') for x in out):
            rest = [x for x in out if not (is_const(x) and x[1] == 'int')]
            s = sum(cval(x) for x in ints)
            out = rest + ([const(s)] if s != 0 or not rest else [])
        return out[0] if len(out) == 1 else ('add', tuple(out))
    if op == '-' and is_const(b) and b[1] == 'int' and not is_const(a):
        return mk_bin('+', a, const(-cval(b)))
    if is_const(a) and is_const(b) and not isinstance(cval(a), bool):
        v = _fold(op, cval(a), cval(b))
        if v is not None:
            return const(v)
    if op == '|':
        # the union of two dict displays (either may be chosen by a condition) is one display whose entries are conditional
        ea, eb = _dict_entries(a, ()), _dict_entries(b, ())
        if ea is not None and eb is not None:
            if not ({repr(x[-2]) for x in ea} & {repr(x[-2]) for x in eb}):      # (no key of the left side is overridden)
                return ('dict', tuple(ea + eb))
    if op in ('|', '&', '^', '*') and repr(b) < repr(a):
        a, b = b, a
    return ('bin', op, a, b)


def _dict_entries(t, atoms):
    """entries of a dict display, or of the displays a conditional chooses between (each under its condition); None otherwise"""
    if t[0] == 'dict':
        out = []
        for e in t[1]:
            if len(e) == 2 and e[0] != 'star':
                out.append(('when', norm_pc(tuple(atoms)), e[0], e[1]) if atoms else e)
            elif len(e) == 4 and e[0] == 'when':
                out.append(('when', norm_pc(tuple(atoms) + tuple(e[1])), e[2], e[3]))
            else:
                return None
        return out
    if t[0] == 'cond' and len(t) == 4:
        x, y = _dict_entries(t[2], atoms + ((t[1], True),)), _dict_entries(t[3], atoms + ((t[1], False),))
        if x is None or y is None:
            return None
        return x + y
    return None


class SVal:
    """value terms of one function (or of a free-standing expression in that function's scope)"""

    def __init__(self, prog, res, fi, run=True, entry_env=None):
        self.prog, self.res, self.fi = prog, res, fi
        self.mod = fi.module
        self.terms = {}       # id(expr) -> term
        self.conds = {}       # id(stmt or expr) -> pc
        self.calls = []       # CallRec
        self.stores = []      # (target term, value term, pc, node)
        self.returns = []     # (pc, term, node)
        self.exit_envs = []   # (pc, environment) at every return and at the fall-through end
        self.raises = []      # (pc, term, node)
        self._ids = 0
        self._sites = {}
        self._seq = 0
        self.seq_of = {}      # id(return / raise statement) -> sequence number
        self.loops = {}       # id -> (node, iter term)
        self.loop_updates = {}  # id -> {name: term after one iteration}
        self.loop_inits = {}    # id -> {name: term before the loop}
        self._wsets = None
        env = {}
        a = fi.node.args
        for p in a.posonlyargs + a.args + a.kwonlyargs:
            env[p.arg] = ('param', p.arg)
        if a.vararg:
            env[a.vararg.arg] = ('param', a.vararg.arg)
        if a.kwarg:
            env[a.kwarg.arg] = ('param', a.kwarg.arg)
        if entry_env:
            env.update(entry_env)
        self.entry_env = dict(env)
        self.end_env = None
        if run and isinstance(fi.node, ast.Lambda):
            v = self.ev(fi.node.body, env, ())
            self.returns.append(((), v, fi.node))
            self.exit_envs.append(((), dict(env)))
            self.end_env = None
        elif run:
            r = self.block(fi.node.body, env, ())
            self.end_env = r[0] if r is not None else None
            if r is not None:
                self.exit_envs.append((norm_pc(r[1]), dict(r[0])))

    # ------------------------------------------------------------------ public helpers
    def expr(self, text, env=None):
        """term of a Python expression written over the parameters (the rule's expected value)"""
        node = ast.parse(text, mode='eval').body
        return self.ev(node, dict(env if env is not None else self.entry_env), (), record=False)

    def term(self, node):
        t = self.terms.get(id(node))
        if t is None:
            raise AnalysisError('value terms: expression `%s` of %s was not evaluated' % (src(node)[:60], self.fi.qual))
        return t

    def cond(self, node):
        return self.conds.get(id(node))

    def ret(self):
        """the returned value as one term gated by the path conditions of the return statements (in source order)"""
        if not self.returns:
            return NONE
        out = None
        for pc, t, _ in reversed(self.returns):
            out = t if out is None else mk_cond(pc_term(pc), t, out)
        return out

    def final(self, key):
        """value of a local / attribute chain (`self.my_crypto`) when the function returns normally, gated over the
        return points where they differ; None when it is never bound"""
        vals = [(pc, env.get(key, UNDEF)) for pc, env in self.exit_envs]
        if not vals or all(v == UNDEF for _, v in vals):
            return None
        out = None
        for pc, v in reversed(vals):
            out = v if out is None else mk_cond(pc_term(pc), v, out)
        return out

    def stored_value(self, target):
        """what the stores to `target` (an attribute / element term) leave there, folded in program order: a store under a
        condition overrides the earlier value only when the condition holds"""
        target = strip_ids(target)
        sts = [(v, pc) for t, v, pc, _, _ in self.stores if strip_ids(t) == target]
        if not sts:
            return None
        common = [a for a in sts[0][1] if all(a in pc for _, pc in sts)]
        out = None
        for v, pc in sts:
            rel = tuple(a for a in pc if a not in common)
            out = v if (out is None or not rel) else mk_cond(pc_term(rel), v, out)
        return out

    def calls_to(self, name=None, qual=None, lib=None, callee=None):
        out = []
        for c in self.calls:
            if callee is not None and c.callee != callee:
                continue
            if name is not None and c.name != name:
                continue
            if qual is not None and qual not in c.quals:
                continue
            if lib is not None and c.lib != lib:
                continue
            out.append(c)
        return out

    # ------------------------------------------------------------------ statements
    def _new_id(self):
        self._ids += 1
        return self._ids

    def block(self, stmts, env, pc):
        """evaluates the statements; returns (environment, path condition) at the fall-through end or None when control
        always leaves"""
        for st in stmts:
            self.conds[id(st)] = pc
            r = self.stmt(st, env, pc)
            if r is None:
                return None
            env, pc = r
        return env, pc

    def stmt(self, st, env, pc):
        if isinstance(st, ast.Assign):
            v = self.ev(st.value, env, pc)
            for t in st.targets:
                self.assign(t, v, env, pc, st)
            return env, pc
        if isinstance(st, ast.AnnAssign):
            if st.value is not None:
                self.assign(st.target, self.ev(st.value, env, pc), env, pc, st)
            return env, pc
        if isinstance(st, ast.AugAssign):
            op = _BINOPS.get(type(st.op), '?')
            v = self.ev(st.value, env, pc)
            cur = self.ev(_load(st.target), env, pc, record=False)
            if op == '+' and cur[0] == 'list':
                new = ('list', cur[1] + (v[1] if v[0] == 'list' else (self._item(('star', v), pc, env),)))
            else:
                new = mk_bin(op, cur, v)
            self.assign(st.target, new, env, pc, st, aug=True)
            return env, pc
        if isinstance(st, ast.Expr):
            if isinstance(st.value, ast.Call) and isinstance(st.value.func, ast.Attribute):
                self._container_call(st.value, env, pc)
            else:
                self.ev(st.value, env, pc)
            return env, pc
        if isinstance(st, ast.If):
            c = self.ev(st.test, env, pc)
            r1 = self.block(st.body, dict(env), pc + ((c, True),))
            r2 = self.block(st.orelse, dict(env), pc + ((c, False),)) if st.orelse else (dict(env), pc + ((c, False),))
            if r1 is None and r2 is None:
                return None
            if r1 is None:
                return r2
            if r2 is None:
                return r1
            # both sides fall through: what the branches established (beyond the test itself) survives as a disjunction
            n = len(pc)
            x1, x2 = norm_pc(r1[1][n + 1:]), norm_pc(r2[1][n + 1:])
            if x1 or x2:
                d = mk_bool('or', (pc_term(norm_pc(((c, True),)) + x1), pc_term(norm_pc(((c, False),)) + x2)))
                return self.merge(c, r1[0], r2[0]), pc + ((d, True),)
            return self.merge(c, r1[0], r2[0]), pc
        if isinstance(st, (ast.For, ast.While)):
            return self.loop(st, env, pc)
        if isinstance(st, ast.Try):
            return self.try_(st, env, pc)
        if isinstance(st, ast.With):
            for it in st.items:
                v = self.ev(it.context_expr, env, pc)
                if it.optional_vars is not None:
                    self.assign(it.optional_vars, ('with', v), env, pc, st)
            return self.block(st.body, env, pc)
        if isinstance(st, ast.Return):
            v = self.ev(st.value, env, pc) if st.value is not None else NONE
            self.returns.append((norm_pc(pc), v, st))
            self.exit_envs.append((norm_pc(pc), dict(env)))
            self._seq += 1
            self.seq_of[id(st)] = self._seq
            return None
        if isinstance(st, ast.Raise):
            v = self.ev(st.exc, env, pc) if st.exc is not None else ('reraise',)
            if st.cause is not None:
                self.ev(st.cause, env, pc)
            self.raises.append((norm_pc(pc), v, st))
            self._seq += 1
            self.seq_of[id(st)] = self._seq
            return None
        if isinstance(st, (ast.Break, ast.Continue)):
            env.setdefault(('exits',), []).append((type(st).__name__, norm_pc(pc)))
            return None
        if isinstance(st, ast.Assert):
            self.ev(st.test, env, pc)
            return env, pc
        if isinstance(st, ast.Delete):
            for t in st.targets:
                k = _key(t)
                if k:
                    env.pop(k, None)
            return env, pc
        if isinstance(st, ast.ClassDef):
            cenv = dict(env)
            members = []
            for b in st.body:
                if isinstance(b, ast.Assign) and len(b.targets) == 1 and isinstance(b.targets[0], ast.Name):
                    v = self.ev(b.value, cenv, pc)
                    cenv[b.targets[0].id] = v
                    members.append((b.targets[0].id, v))
            env[st.name] = ('localclass', tuple(self.ev(b, env, pc) for b in st.bases), tuple(members))
            return env, pc
        if isinstance(st, (ast.FunctionDef, ast.AsyncFunctionDef)):
            env[st.name] = ('localdef', st.name)
            return env, pc
        if isinstance(st, (ast.Pass, ast.Global, ast.Nonlocal, ast.Import, ast.ImportFrom)):
            return env, pc
        raise AnalysisError('value terms: unsupported statement %s in %s' % (type(st).__name__, self.fi.qual))

    def _item(self, t, pc, env):
        base = env.get(('loop-pc',), ())
        rel = pc[len(base):] if pc[:len(base)] == base else pc
        rel = norm_pc(rel)
        if rel:
            return ('when', rel, t)
        return t

    def _container_call(self, call, env, pc):
        """`x.append(e)` / `x.extend(e)` / `x.update(..)` on a container term held in the environment"""
        f = call.func
        k = _key(f.value)
        cur = env.get(k) if k else None
        if cur is not None and cur[0] == 'list' and f.attr in ('append', 'extend', 'insert') and not call.keywords:
            args = [self.ev(a, env, pc) for a in call.args]
            if f.attr == 'append' and len(args) == 1:
                env[k] = ('list', cur[1] + (self._item(args[0], pc, env),))
                self._record_call(call, env, pc, args)
                return
            if f.attr == 'extend' and len(args) == 1:
                add = args[0][1] if args[0][0] == 'list' and not pc[len(env.get(('loop-pc',), ())):] else (
                    self._item(('star', args[0]), pc, env),)
                env[k] = ('list', cur[1] + tuple(add))
                self._record_call(call, env, pc, args)
                return
        if cur is not None and cur[0] == 'dict' and f.attr == 'setdefault' and len(call.args) == 2 and not call.keywords:
            # D.setdefault(k, v) as a statement is `if k not in D: D[k] = v`
            key, val = self.ev(call.args[0], env, pc), self.ev(call.args[1], env, pc)
            bt = self.ev(f.value, env, pc, record=False)
            npc = pc + ((self.mk_cmp('in', key, bt), False),)
            self._seq += 1
            self.stores.append((('index', bt, key), val, norm_pc(npc), call, self._seq))
            ent = self._item((key, val), npc, env)
            if ent[0] == 'when':
                ent = ('when', ent[1], key, val)
            env[k] = ('dict', cur[1] + (ent,))
            self._record_call(call, env, pc, [key, val])
            return
        self.ev(call, env, pc)
        # a mutating call on a tracked container makes its term opaque
        if cur is not None and cur[0] in ('list', 'dict') and f.attr in ('pop', 'remove', 'clear', 'insert', 'sort', 'reverse',
                                                                        'update', 'setdefault', 'popitem'):
            env[k] = ('mutated', cur, f.attr)

    def assign(self, target, v, env, pc, st, aug=False):
        if isinstance(target, ast.Name):
            env[target.id] = v
            pref = target.id + '.'
            for k in [k for k in env if isinstance(k, str) and k.startswith(pref)]:
                del env[k]
            return
        if isinstance(target, (ast.Tuple, ast.List)):
            n = len(target.elts)
            for i, e in enumerate(target.elts):
                if isinstance(e, ast.Starred):
                    self.assign(e.value, ('slice', v, const(i), const(i - n + 1) if i - n + 1 else NONE, NONE), env, pc, st)
                elif v[0] == 'tuple' and len(v[1]) == n:
                    self.assign(e, v[1][i], env, pc, st)
                elif v[0] == 'cond' and v[2][0] == 'tuple' and v[3][0] == 'tuple' and len(v[2][1]) == n == len(v[3][1]):
                    self.assign(e, mk_cond(v[1], v[2][1][i], v[3][1][i]), env, pc, st)
                else:
                    self.assign(e, mk_index(v, const(i)), env, pc, st)
            return
        if isinstance(target, ast.Attribute):
            k = _key(target)
            bt = self.ev(target.value, env, pc)
            self._seq += 1
            self.stores.append((('attr', bt, target.attr), v, norm_pc(pc), st, self._seq))
            if k:
                env[k] = v
                pref = k + '.'
                for kk in [kk for kk in env if isinstance(kk, str) and kk.startswith(pref)]:
                    del env[kk]
            return
        if isinstance(target, ast.Subscript):
            k = _key(target.value)
            bt = self.ev(target.value, env, pc)
            if isinstance(target.slice, ast.Slice):
                it = ('slice', bt) + tuple(self.ev(x, env, pc) if x is not None else NONE
                                           for x in (target.slice.lower, target.slice.upper, target.slice.step))
            else:
                it = ('index', bt, self.ev(target.slice, env, pc))
            self._seq += 1
            self.stores.append((it, v, norm_pc(pc), st, self._seq))
            if k and k in env and env[k][0] == 'dict' and it[0] == 'index':
                ent = self._item((it[2], v), pc, env)
                if ent[0] == 'when':
                    ent = ('when', ent[1], it[2], v)
                env[k] = ('dict', env[k][1] + (ent,))
            elif k and k in env and env[k][0] in ('list', 'dict'):
                env[k] = ('mutated', env[k], 'store')
            return
        if isinstance(target, ast.Starred):
            self.assign(target.value, v, env, pc, st)
            return
        raise AnalysisError('value terms: unsupported assignment target %s in %s' % (type(target).__name__, self.fi.qual))

    def merge(self, c, e1, e2):
        out = {}
        for k in list(e1) + [k for k in e2 if k not in e1]:
            if isinstance(k, tuple):
                if k == ('exits',):
                    out[k] = list(e1.get(k, [])) + [x for x in e2.get(k, []) if x not in e1.get(k, [])]
                else:
                    out[k] = e1.get(k, e2.get(k))
                continue
            a, b = e1.get(k, UNDEF), e2.get(k, UNDEF)
            out[k] = self._merge_val(c, a, b)
        return out

    def _merge_val(self, c, a, b):
        if a == b:
            return a
        for kind in ('list', 'dict', 'cat'):
            if a[0] == kind and b[0] == kind:
                n = 0
                while n < len(a[1]) and n < len(b[1]) and a[1][n] == b[1][n]:
                    n += 1
                ta, tb = a[1][n:], b[1][n:]
                # items already carry their own condition when they were added under one
                if all(_conditional(x) for x in ta + tb):
                    return (kind, a[1][:n] + tuple(_under(x, (c, True)) for x in ta) + tuple(_under(x, (c, False)) for x in tb))
        if a[0] == 'add' and b[0] == 'add' or (a[0] == 'add' and a[1][:1] == (b,)) or (b[0] == 'add' and b[1][:1] == (a,)):
            ia = a[1] if a[0] == 'add' else (a,)
            ib = b[1] if b[0] == 'add' else (b,)
            n = 0
            while n < len(ia) and n < len(ib) and ia[n] == ib[n]:
                n += 1
            if n:
                ta, tb = ia[n:], ib[n:]
                items = ia[:n]
                if ta:
                    items += (('when', ((c, True),), ta[0] if len(ta) == 1 else ('add', ta)),)
                if tb:
                    items += (('when', ((c, False),), tb[0] if len(tb) == 1 else ('add', tb)),)
                return ('add', items)
        return mk_cond(c, a, b)

    def _search_loop(self, st, env, pc):
        """`for x in xs: if test(x): break  [else: ...]`  is  x = next(x for x in xs if test(x))  whose StopIteration runs the
        else branch"""
        lid = self._new_id()
        it = self.ev(st.iter, env, pc)
        benv = dict(env)
        it = self._bind_iter(st.target, it, lid, benv, pc, st)
        self.loops[lid] = (st, it)
        test = self.ev(st.body[0].test, benv, pc)
        elem = benv[st.target.id]
        site = self._sites.setdefault(id(st), len(self._sites) + 1)
        found = ('call', 'builtins.next', NONE, (('#0', ('list', (('each', lid, it, norm_pc(((test, True),)), elem),))),), site)
        self._seq += 1
        self.calls.append(CallRec(st, 'next', 'builtins.next', (), 'builtins.next', None, {'#0': found[3][0][1]}, norm_pc(pc), found, self,
                                  self._seq))
        tid = self._new_id()
        if st.orelse:
            miss = pc + ((('caught', ('global', 'builtins.StopIteration'), tid), True),)
            r = self.block(st.orelse, dict(env), miss)
            if r is not None:
                out = self.merge(('tryjoin', tid), dict(env, **{st.target.id: found}), r[0])
                return out, pc
        env[st.target.id] = found
        return env, pc

    def loop(self, st, env, pc, it_override=None):
        if (isinstance(st, ast.For) and isinstance(st.target, ast.Name) and len(st.body) == 1 and isinstance(st.body[0], ast.If)
                and not st.body[0].orelse and len(st.body[0].body) == 1 and isinstance(st.body[0].body[0], ast.Break)):
            return self._search_loop(st, env, pc)
        lid = self._new_id()
        it = self.ev(st.iter, env, pc) if isinstance(st, ast.For) else None
        if it_override is not None:
            it = it_override
        if it is not None and not getattr(st, 'orelse', None) and it[0] in ('tuple', 'list') and 1 <= len(it[1]) <= (8 if _accumulation_only(st.body) else 4) \
                and not any(isinstance(x, tuple) and x and x[0] in ('star', 'when', 'each', 'acc') for x in it[1]) \
                and not any(isinstance(x, (ast.Break, ast.Continue)) for s_ in st.body for x in walk_no_nested(s_)
                            if not isinstance(x, (ast.For, ast.While))):
            # a loop over a short literal sequence is its body once per element (each element bound to the target in turn)
            has_inner_loop = any(isinstance(x, (ast.For, ast.While)) for s_ in st.body for x in walk_no_nested(s_))
            if not has_inner_loop:
                cur, cpc = dict(env), pc
                for item in it[1]:
                    self.assign(st.target, item, cur, cpc, st)
                    r = self.block(st.body, cur, cpc)
                    if r is None:
                        return None
                    cur, cpc = r
                return cur, cpc
        if it is not None and not getattr(st, 'orelse', None):
            # `for x in (X if c else [])`, also spelt `for i in range(len(X if c else []))`: the loop over X, run when c holds
            g = _gated_iter(it)
            if g is not None:
                c, x_then = g
                r = self.loop(st, dict(env), pc + ((c, True),), it_override=x_then)
                if r is not None:
                    return self.merge(c, r[0], dict(env)), pc
        stored = set()
        for s in st.body:
            for x in walk_no_nested(s):
                if isinstance(x, ast.Name) and isinstance(x.ctx, ast.Store):
                    stored.add(x.id)
                elif isinstance(x, (ast.Attribute, ast.Subscript)) and isinstance(x.ctx, ast.Store):
                    k = _key(x if isinstance(x, ast.Attribute) else x.value)
                    if k:
                        stored.add(k)
                elif isinstance(x, ast.Call) and isinstance(x.func, ast.Attribute) and x.func.attr in (
                        'append', 'extend', 'insert', 'update', 'pop', 'remove', 'clear'):
                    k = _key(x.func.value)
                    if k:
                        stored.add(k)
        body_env = dict(env)
        body_env[('loop-pc',)] = pc
        marks = {}
        for k in stored:
            if k in env and not isinstance(k, tuple):
                cur = env[k]
                if cur[0] in ('list', 'dict', 'cat'):
                    marks[k] = (cur[0], (('acc', k, lid),))
                    body_env[k] = marks[k]
                elif cur[0] == 'add' or is_const(cur) or cur[0] in ('call', 'param', 'attr', 'global'):
                    marks[k] = ('acc', k, lid)
                    body_env[k] = marks[k]
                else:
                    body_env[k] = ('loopvar', k, lid)
        self.loop_inits[lid] = {k: env[k] for k in stored if not isinstance(k, tuple) and k in env}
        if isinstance(st, ast.For):
            it = self._bind_iter(st.target, it, lid, body_env, pc, st)
            bpc = pc
        else:
            tt = self.ev(st.test, body_env, pc)
            it = ('while', tt)
            bpc = pc + ((tt, True),)
            body_env[('loop-pc',)] = bpc
        self.loops[lid] = (st, it)
        e = self.block(st.body, body_env, bpc)
        e = e[0] if e is not None else None
        out = dict(env)
        last = e if e is not None else body_env
        # how each loop-carried name is updated by one iteration (in terms of its value at the start of the iteration)
        self.loop_updates[lid] = {k: last.get(k, UNDEF) for k in stored if not isinstance(k, tuple) and k in env}
        for k in stored:
            if isinstance(k, tuple):
                continue
            v = last.get(k, UNDEF)
            if k in marks:
                m = marks[k]
                if v[0] in ('list', 'dict', 'cat') and isinstance(m, tuple) and m[0] == v[0] and v[1][:1] == m[1]:
                    items = tuple(_each(lid, it, x) for x in v[1][1:])
                    out[k] = (v[0], env[k][1] + items)
                    continue
                if v[0] == 'add' and v[1][:1] == (m,):
                    rest = v[1][1:]
                    body = rest[0] if len(rest) == 1 else ('add', rest)
                    out[k] = mk_bin('+', env[k], ('sum', lid, it, body))
                    continue
                if v == m:
                    out[k] = env[k]
                    continue
            out[k] = ('loopout', k, lid) if e is not None or k in env else ('loopout', k, lid)
        if getattr(st, 'orelse', None):
            r = self.block(st.orelse, dict(out), pc)
            if r is None:
                # the loop can still be left through break; keep the environment opaque
                return (out, pc) if any(isinstance(x, ast.Break) for s in st.body for x in walk_no_nested(s)) else None
            out = r[0]
        return out, pc

    def _bind_iter(self, target, it, lid, env, pc, st):
        seq = it
        if it[0] == 'call' and it[1] == 'builtins.enumerate' and isinstance(target, (ast.Tuple, ast.List)) and len(
                target.elts) == 2:
            seq = dict(it[3]).get('#0', UNDEF)
            self.assign(target.elts[0], ('idx', seq, lid), env, pc, st)
            return self._bind_iter(target.elts[1], seq, lid, env, pc, st)
        if it[0] == 'call' and it[1] == 'builtins.range':
            args = [t for _, t in it[3]]
            # for i in range(len(xs)) / range(0, len(xs)): the index of xs
            hi = args[-1] if len(args) in (1, 2) else None
            lo = args[0] if len(args) == 2 else const(0)
            if hi is not None and lo == const(0) and hi[0] == 'call' and hi[1] == 'builtins.len':
                seq = dict(hi[3]).get('#0', UNDEF)
                if seq[0] == 'call' and seq[1] in ('builtins.list', 'builtins.tuple') and len(seq[3]) == 1:
                    seq = seq[3][0][1]          # positions of a copy are positions of the original
                self.assign(target, ('idx', seq, lid), env, pc, st)
                return seq
        if it[0] == 'call' and it[1] in ('method.items',) and isinstance(target, (ast.Tuple, ast.List)) and len(target.elts) == 2:
            self.assign(target.elts[0], ('key', it[2], lid), env, pc, st)
            self.assign(target.elts[1], ('value', it[2], lid), env, pc, st)
            return it
        if it[0] == 'call' and it[1] == 'builtins.list' and len(it[3]) == 1:
            seq = it[3][0][1]       # iterating a copy
        self.assign(target, ('elem', seq, lid), env, pc, st)
        return seq

    def try_(self, st, env, pc):
        tid = self._new_id()
        stored = set()
        for s in st.body:
            for x in walk_no_nested(s):
                if isinstance(x, ast.Name) and isinstance(x.ctx, ast.Store):
                    stored.add(x.id)
        before = dict(env)
        r = self.block(st.body, env, pc)
        if r is not None and st.orelse:
            r = self.block(st.orelse, r[0], r[1])
        e_body, pc_body = r if r is not None else (None, pc)
        ends = []
        end_pcs = []
        if e_body is not None:
            ends.append(e_body)
            end_pcs.append(pc_body)
        for h in st.handlers:
            he = dict(before)
            for k in stored:
                he[k] = ('tryvar', k, tid, before.get(k, UNDEF))
            tt = self.ev(h.type, he, pc, record=False) if h.type is not None else ('global', 'builtins.BaseException')
            hpc = pc + ((('caught', tt, tid), True),)
            if h.name:
                he[h.name] = ('exc', tt, tid)
            self.conds[id(h)] = hpc
            r = self.block(h.body, he, hpc)
            if r is not None:
                ends.append(r[0])
                end_pcs.append(r[1])
        if st.finalbody:
            fe = dict(before)
            for k in stored:
                fe[k] = ('tryvar', k, tid, before.get(k, UNDEF))
            if not ends:
                self.block(st.finalbody, fe, pc)
                return None
        if not ends:
            return None
        out = ends[0]
        gate = ('tryjoin', tid)
        if len(ends) == 2 and e_body is not None and len(st.handlers) == 1:
            gate = mk_not(('caught', tt, tid))        # one handler: the body completed iff nothing was caught
        for other in ends[1:]:
            out = self.merge(gate, out, other)
        if st.finalbody:
            r = self.block(st.finalbody, out, pc)
            if r is None:
                return None
            out = r[0]
        # the statements after a try whose handlers all leave run only when the body completed
        return out, (end_pcs[0] if len(ends) == 1 else pc)

    # ------------------------------------------------------------------ expressions
    def ev(self, e, env, pc, record=True):
        t = self._ev(e, env, pc, record)
        if record:
            self.terms[id(e)] = t
            self.conds[id(e)] = pc
        return t

    def _global(self, name):
        m, fi = self.mod, self.fi
        c = self.prog.resolve_class_expr(name, m, fi.cls)
        if c is not None:
            return ('global', c.qual)
        fn = m.functions.get(name)
        if fn is not None:
            return ('global', fn.qual)
        if name in m.consts:
            return self._module_const(m, name)
        imp = m.imports.get(name)
        if imp is not None:
            if imp[0] == 'module':
                return ('global', imp[1])
            if imp[1] in self.prog.modules:
                tm = self.prog.modules[imp[1]]
                if imp[2] in tm.classes:
                    return ('global', tm.classes[imp[2]].qual)
                if imp[2] in tm.consts:
                    return self._module_const(tm, imp[2])
                return ('global', imp[1] + '.' + imp[2])
            return ('global', imp[1] + '.' + imp[2])
        if name in _BUILTINS:
            return ('global', 'builtins.' + name)
        # class-scope constant visible by bare name inside the class body only; otherwise unknown
        return ('global', '?' + name)

    def _module_const(self, m, name):
        """a module-level name bound to a dict / tuple / list display is that display (so a lookup table may live in the
        function or in the module); any other constant stays a symbol"""
        v = m.consts[name]
        if isinstance(v, ast.Constant) and isinstance(v.value, (str, bytes)):
            return const(v.value)       # a named text constant is its text (numeric constants stay symbols: their names matter)
        if isinstance(v, (ast.Dict, ast.Tuple, ast.List, ast.Set)) and not getattr(self, '_in_const', False):
            key = (m.name, name)
            cache = self.prog.__dict__.setdefault('_sval_consts', {})
            if key not in cache:
                cache[key] = module_scope(self.prog, self.res, m).expr_node(v)
            return cache[key]
        return ('global', m.name + '.' + name)

    def expr_node(self, node, env=None):
        return self.ev(node, dict(env if env is not None else self.entry_env), (), record=False)

    def _ev(self, e, env, pc, record):
        ev = lambda x, p=pc: self.ev(x, env, p, record)
        if e is None:
            return NONE
        if isinstance(e, ast.Constant):
            return const(e.value)
        if isinstance(e, ast.Name):
            if e.id in env:
                t = env[e.id]
                # a value that was chosen by a test this path has already decided
                n = 0
                while t[0] == 'cond' and n < 8:
                    n += 1
                    d = next((val for a, val in pc if a == t[1]), None)
                    if d is None and t[1][0] == 'not':
                        d0 = next((val for a, val in pc if a == t[1][1]), None)
                        d = None if d0 is None else (not d0)
                    if d is None:
                        break
                    t = t[2] if d else t[3]
                return t
            return self._global(e.id)
        if isinstance(e, ast.Attribute):
            k = _key(e)
            if k and k in env:
                return env[k]
            b = ev(e.value)
            if b[0] == 'global' and not b[1].startswith('?'):
                # a table of the class read through the class name inside one of its own methods (`MODPDH._group_dict[g]`) is the
                # table the code base reads through the receiver (`self._group_dict[g]`): one term for both
                cls_ = getattr(self.fi, 'cls', None)
                if cls_ is not None and b[1] == cls_.qual and getattr(self.fi, 'self_name', None) and not getattr(self.fi, 'is_staticmethod', False):
                    v_ = cls_.lookup_attr(e.attr) if hasattr(cls_, 'lookup_attr') else None
                    if isinstance(v_, (ast.Dict, ast.Tuple, ast.List, ast.Set)):
                        return mk_attr(('param', self.fi.self_name), e.attr)
                return ('global', b[1] + '.' + e.attr)
            # a nested class of the receiver's class read through the receiver (`self.Type.X`, `cls.Type.X`) is the class the code base
            # names through the class (`TrafficSelector.Type.X`)
            cls_ = getattr(self.fi, 'cls', None)
            if cls_ is not None and b == ('param', getattr(self.fi, 'self_name', None) or '?'):
                for k_ in cls_.mro():
                    if any(isinstance(n_, ast.ClassDef) and n_.name == e.attr for n_ in k_.node.body):
                        return ('global', k_.qual + '.' + e.attr)
            return mk_attr(b, e.attr)
        if isinstance(e, ast.BinOp):
            return mk_bin(_BINOPS.get(type(e.op), '?'), ev(e.left), ev(e.right))
        if isinstance(e, ast.UnaryOp):
            v = ev(e.operand)
            if isinstance(e.op, ast.Not):
                return mk_not(v)
            if isinstance(e.op, ast.USub) and is_const(v) and v[1] == 'int':
                return const(-cval(v))
            return ('un', type(e.op).__name__, v)
        if isinstance(e, ast.BoolOp):
            op = 'and' if isinstance(e.op, ast.And) else 'or'
            items, p = [], pc
            for x in e.values:
                t = self.ev(x, env, p, record)
                items.append(t)
                p = p + ((t, op == 'and'),)
            return mk_bool(op, tuple(items))
        if isinstance(e, ast.Compare):
            parts = []
            left = ev(e.left)
            for op, c in zip(e.ops, e.comparators):
                right = ev(c)
                parts.append(self.mk_cmp(_CMPOPS[type(op)], left, right))
                left = right
            return parts[0] if len(parts) == 1 else mk_bool('and', tuple(parts))
        if isinstance(e, ast.IfExp):
            c = ev(e.test)
            a = self.ev(e.body, env, pc + ((c, True),), record)
            b = self.ev(e.orelse, env, pc + ((c, False),), record)
            return mk_cond(c, a, b)
        if isinstance(e, ast.Call):
            args0 = [ev(a.value) if isinstance(a, ast.Starred) else ev(a) for a in e.args]
            args = []
            for a, t in zip(e.args, args0):
                if not isinstance(a, ast.Starred):
                    args.append(t)
                elif t[0] == 'call' and isinstance(t[1], str) and t[1].startswith('namedtuple.') and all(
                        not k.startswith('#') and v[0] != 'star' for k, v in t[3]):
                    args.extend(v for _, v in t[3])          # f(*record): the fields of the record, in order
                elif t[0] == 'tuple' and not any(isinstance(x, tuple) and x and x[0] in ('star', 'when', 'each') for x in t[1]):
                    args.extend(t[1])
                else:
                    args.append(('star', t))
            return self._record_call(e, env, pc, args, record)
        if isinstance(e, ast.Subscript):
            b = ev(e.value)
            if isinstance(e.slice, ast.Slice):
                s = e.slice
                if s.lower is None and s.upper is None and s.step is None:
                    return ('list', (('star', b),))       # x[:] is a fresh copy of x
                return ('slice', b, ev(s.lower) if s.lower is not None else NONE, ev(s.upper) if s.upper is not None else NONE,
                        ev(s.step) if s.step is not None else NONE)
            return mk_index(b, ev(e.slice))
        if isinstance(e, ast.Tuple):
            return ('tuple', tuple(('star', ev(x.value)) if isinstance(x, ast.Starred) else ev(x) for x in e.elts))
        if isinstance(e, (ast.List, ast.Set)):
            return ('list' if isinstance(e, ast.List) else 'set',
                    tuple(('star', ev(x.value)) if isinstance(x, ast.Starred) else ev(x) for x in e.elts))
        if isinstance(e, ast.Dict):
            ents = []
            for k, v in zip(e.keys, e.values):
                if k is None:
                    ents.append(('star', ev(v)))
                else:
                    ents.append((ev(k), ev(v)))
            return ('dict', tuple(ents))
        if isinstance(e, ast.JoinedStr):
            parts = []
            for v in e.values:
                if isinstance(v, ast.Constant):
                    parts.append(const(v.value))
                elif isinstance(v, ast.FormattedValue):
                    parts.append(('fmt', ev(v.value), v.conversion, src(v.format_spec) if v.format_spec else ''))
            return ('fstr', tuple(parts))
        if isinstance(e, ast.Lambda):
            names = tuple(a.arg for a in e.args.args)
            le = dict(env)
            for n in names:
                le[n] = ('param', n)
            if not hasattr(self, '_lams'):
                self._lams = {}
            self._lams[id(e)] = e
            return ('lambda', names, self.ev(e.body, le, pc + ((('in-lambda',), True),), record), id(e))
        if isinstance(e, (ast.ListComp, ast.GeneratorExp)) and len(e.generators) == 1 and not e.generators[0].ifs \
                and not e.generators[0].is_async and isinstance(e.generators[0].target, ast.Name):
            # [f(x) for x in (a, b)] is [f(a), f(b)]
            it0 = as_display(self.ev(e.generators[0].iter, env, pc, record))
            if it0[0] in ('tuple', 'list') and 1 <= len(it0[1]) <= 8 and not any(
                    isinstance(x, tuple) and x and x[0] in ('star', 'when', 'each', 'acc') for x in it0[1]):
                items = []
                for x in it0[1]:
                    ce = dict(env)
                    ce[e.generators[0].target.id] = x
                    items.append(self.ev(e.elt, ce, pc, record))
                return ('list', tuple(items))
        if isinstance(e, (ast.ListComp, ast.SetComp, ast.GeneratorExp, ast.DictComp)):
            ce = dict(env)
            wrap = []
            p = pc
            base = pc
            for g in e.generators:
                lid = self._new_id()
                it = self.ev(g.iter, ce, p, record)
                it = self._bind_iter(g.target, it, lid, ce, p, g)
                self.loops[lid] = (g, it)
                conds = ()
                for c in g.ifs:
                    t = self.ev(c, ce, p, record)
                    conds += ((t, True),)
                    p = p + ((t, True),)
                wrap.append((lid, it, norm_pc(conds)))
            if isinstance(e, ast.DictComp):
                item = ('kv', self.ev(e.key, ce, p, record), self.ev(e.value, ce, p, record))
            else:
                item = self.ev(e.elt, ce, p, record)
            for lid, it, conds in reversed(wrap):
                item = ('each', lid, it, conds, item)
            kind = {ast.ListComp: 'list', ast.SetComp: 'set', ast.GeneratorExp: 'list', ast.DictComp: 'dict'}[type(e)]
            return (kind, (item,))
        if isinstance(e, ast.NamedExpr):
            v = ev(e.value)
            env[e.target.id] = v
            return v
        if isinstance(e, ast.Starred):
            return ('star', ev(e.value))
        if isinstance(e, (ast.Await, ast.Yield, ast.YieldFrom)):
            return ('opaque', src(e)[:40], self._new_id())
        if isinstance(e, ast.Slice):
            return ('sliceobj', ev(e.lower), ev(e.upper), ev(e.step))
        raise AnalysisError('value terms: unsupported expression %s in %s' % (type(e).__name__, self.fi.qual))

    def mk_cmp(self, op, a, b):
        neg = {'!=': '==', 'is not': 'is', 'not in': 'in'}
        if op in neg:
            return mk_not(self.mk_cmp(neg[op], a, b))
        if op in ('>', '>='):
            return self.mk_cmp('<' if op == '>' else '<=', b, a)
        # gates distribute over comparisons with a constant / global
        for x, y, left in ((a, b, True), (b, a, False)):
            if x[0] == 'cond' and (is_const(y) or y[0] == 'global'):
                l = self.mk_cmp(op, x[2], y) if left else self.mk_cmp(op, y, x[2])
                r = self.mk_cmp(op, x[3], y) if left else self.mk_cmp(op, y, x[3])
                return mk_cond(x[1], l, r)
        va, vb = self.value_of(a), self.value_of(b)
        if va is not _NOVAL and vb is not _NOVAL:
            try:
                return const({'==': lambda: va == vb, 'is': lambda: va is vb or va == vb, '<': lambda: va < vb,
                              '<=': lambda: va <= vb, 'in': lambda: va in vb}[op]())
            except Exception:
                pass
        if op == 'in' and b[0] in ('tuple', 'list') and 1 <= len(b[1]) <= 4 and not any(
                isinstance(x, tuple) and x and x[0] in ('star', 'when', 'each', 'acc') for x in b[1]) \
                and not all(x[0] in ('global', 'const') for x in b[1]):
            # membership in a display of values (not of constants: those stay sets) is the disjunction of the equalities
            return mk_bool('or', tuple(self.mk_cmp('==', x, a) for x in b[1]))
        if op == '==' and a[0] == 'tuple' and b[0] == 'tuple' and len(a[1]) == len(b[1]) and a[1] \
                and not any(isinstance(x, tuple) and x and x[0] in ('star', 'when', 'each', 'acc') for x in a[1] + b[1]):
            # equality of two displays of one length is the equality of their elements
            return mk_bool('and', tuple(self.mk_cmp('==', x, y) for x, y in zip(a[1], b[1])))
        if op in ('==', 'is'):
            if a == b and a[0] in ('param', 'global', 'const'):
                return TRUE
            # a function, a display or a freshly constructed object is not None
            for x, y in ((a, b), (b, a)):
                if x == NONE and (y[0] in ('lambda', 'list', 'tuple', 'dict', 'set', 'fstr') or
                                  (y[0] == 'call' and isinstance(y[1], str) and y[1].startswith('new '))):
                    return FALSE
            if repr(b) < repr(a):
                a, b = b, a
            if op == 'is' and b != NONE and a != NONE:
                op = '=='
        return ('cmp', op, a, b)

    def value_of(self, t):
        """Python value of a constant term or of a global naming a module / class constant, else _NOVAL"""
        if is_const(t):
            return cval(t)
        if t[0] == 'global' and not t[1].startswith('?'):
            try:
                node = ast.parse(_local_name(self, t[1]), mode='eval').body
                return self.prog.const_eval(node, self.mod, self.fi.cls)
            except (AnalysisError, SyntaxError):
                return _NOVAL
        if t[0] == 'tuple' and all(self.value_of(x) is not _NOVAL for x in t[1]):
            return tuple(self.value_of(x) for x in t[1])
        return _NOVAL

    def _record_call(self, e, env, pc, args, record=True):
        f = e.func
        recv = None
        name = None
        if isinstance(f, ast.Attribute):
            name = f.attr
            recv = self.ev(f.value, env, pc, record)
        elif isinstance(f, ast.Name):
            name = f.id
        try:
            r = self.res.resolve_call(e, self.fi, count=False)
        except Exception:
            r = None
        quals, lib, params, callee = (), None, None, None
        if r is not None:
            if r.kind in ('repo', 'dyn') and r.targets:
                quals = tuple(sorted(t.qual for t in r.targets))
                if len(r.targets) == 1:
                    params = r.targets[0].call_params() + r.targets[0].kwonly
                    if r.targets[0].is_staticmethod:
                        recv = None         # a static method has no receiver: self.f(..), cls.f(..) and Class.f(..) are one call
                callee = quals[0] if len(quals) == 1 else quals
            elif r.kind == 'ctor':
                callee = 'new ' + (r.cls.qual if r.cls is not None else '?')
                quals = tuple(sorted(t.qual for t in r.targets))
                if len(r.targets) == 1 and r.targets[0].name == '__init__':
                    params = r.targets[0].call_params() + r.targets[0].kwonly
            elif r.kind == 'enum':
                callee = 'enum ' + (r.cls.qual if r.cls is not None else '?')
            elif r.kind == 'lib':
                lib = r.lib
                callee = lib
                if lib and lib.startswith('namedtuple.'):
                    try:
                        from .model import namedtuple_fields
                        for mname in self.prog.modules:
                            if lib[11:] in self.prog.modules[mname].consts:
                                params = namedtuple_fields(self.prog, mname, lib[11:])
                                break
                    except AnalysisError:
                        params = None
        if isinstance(f, ast.Attribute) and f.attr == '_make' and isinstance(f.value, ast.Name) and len(args) == 1 and not e.keywords:
            # NT._make(seq) is NT(*seq)
            for mname in self.prog.modules:
                if f.value.id in self.prog.modules[mname].consts:
                    try:
                        from .model import namedtuple_fields
                        params = namedtuple_fields(self.prog, mname, f.value.id)
                    except AnalysisError:
                        params = None
                    if params:
                        callee = lib = 'namedtuple.' + f.value.id
                        recv = None
                        args = [('star', args[0])]
                    break
        if isinstance(f, ast.Name) and f.id in env and _has_lambda(env[f.id]):
            callee, lib, quals, params = ('dyn', env[f.id]), None, (), None
        if not isinstance(f, (ast.Name, ast.Attribute)):
            # (c_ubyte * size)(...), handlers[k](...): the callee is a computed value
            callee, lib = ('dyn', self.ev(f, env, pc, record)), None
        if callee is None:
            ft = self.ev(f, env, pc, record=False) if not isinstance(f, ast.Attribute) else ('attr', recv, name)
            callee = ('dyn', ft)
            if isinstance(f, ast.Attribute) and (r is None or r.kind in ('unknown', 'dyn')):
                callee = 'method.' + name
                lib = lib or callee
        if isinstance(callee, str) and callee.startswith('builtin.'):
            callee = 'builtins.' + callee[8:]
            lib = callee
        if params is None and isinstance(callee, str):
            params = lib_params(callee, name)
        bound = []
        for i, t in enumerate(args):
            if params is not None and i < len(params) and t[0] != 'star':
                bound.append((params[i], t))
            else:
                bound.append(('#%d' % i, t))
        for kw in e.keywords:
            bound.append((kw.arg or '**', self.ev(kw.value, env, pc, record)))
        if params is not None:
            order = {p: i for i, p in enumerate(params)}
            bound.sort(key=lambda kv: (order.get(kv[0], 999), kv[0]))
        if (isinstance(callee, str) and callee.startswith('namedtuple.') and params is not None and len(bound) == 1
                and bound[0][1][0] == 'star' and not e.keywords):
            x = bound[0][1][1]
            bound = [(p, mk_index(x, const(i))) for i, p in enumerate(params)]
        site = self._sites.setdefault(id(e), len(self._sites) + 1) if record else 0
        term = ('call', callee, recv if recv is not None else NONE, tuple(bound), site)
        # calling a lambda (or one of several, chosen by a condition) is its body with the arguments put in
        if isinstance(callee, tuple) and callee[0] == 'dyn' and not e.keywords and all(t[0] != 'star' for _, t in bound):
            actual = [t for _, t in bound]

            def apply(ft, apc):
                if ft[0] == 'lambda' and len(ft[1]) == len(actual):
                    node = getattr(self, '_lams', {}).get(ft[3]) if len(ft) > 3 else None
                    if node is None:
                        return subst_params(ft[2], dict(zip(ft[1], actual)))
                    # the body is evaluated again where it is applied: the calls it makes are calls of this function, with these
                    # arguments, under this path condition (the records made where the lambda was written are dropped)
                    le = dict(env)
                    le.update(zip(ft[1], actual))
                    if record:
                        inner = {id(c) for c in ast.walk(node.body) if isinstance(c, ast.Call)}
                        self.calls = [c for c in self.calls if not (id(c.node) in inner and any(a[0] == ('in-lambda',) for a in c.pc))]
                    return self.ev(node.body, le, apc, record)
                if ft[0] == 'cond' and any(_has_lambda(x) for x in ft[2:]):
                    return mk_cond(ft[1], apply(ft[2], apc + ((ft[1], True),)), apply(ft[3], apc + ((ft[1], False),)))
                return ('call', ('dyn', ft), recv if recv is not None else NONE, tuple(bound), site)
            if _has_lambda(callee[1]):
                term = apply(callee[1], pc)
        # pure builtins on constants fold
        if callee == 'builtins.len' and len(bound) == 1 and bound[0][1][0] in ('tuple', 'list') and not any(
                isinstance(x, tuple) and x and x[0] in ('when', 'each', 'star') for x in bound[0][1][1]):
            term = const(len(bound[0][1][1]))
        # b''.join(f(x) for x in xs) is the concatenation the `for x in xs: buf += f(x)` loop builds
        if name == 'join' and recv is not None and is_const(recv) and cval(recv) in (b'', '') and len(bound) == 1 and not e.keywords:
            a_ = bound[0][1]
            if a_[0] in ('list', 'tuple') and len(a_[1]) == 1 and isinstance(a_[1][0], tuple) and a_[1][0][0] == 'each' and not a_[1][0][3]:
                ea = a_[1][0]
                term = ('sum', ea[1], ea[2], ea[4])
            elif a_[0] == 'list' and a_[1] and any(isinstance(x_, tuple) and x_ and x_[0] in ('when', 'each') for x_ in a_[1]) and not any(
                    isinstance(x_, tuple) and x_ and x_[0] == 'star' for x_ in a_[1]):
                # a list of chunks built up step by step (some appended under a condition, some in a loop) and joined at the end is the
                # buffer that `+=` builds up in the same steps
                parts_ = []
                for x_ in a_[1]:
                    if isinstance(x_, tuple) and x_ and x_[0] == 'each':
                        sm_ = ('sum', x_[1], x_[2], x_[4])
                        parts_.append(('when', x_[3], sm_) if x_[3] else sm_)
                    else:
                        parts_.append(x_)
                term = parts_[0] if len(parts_) == 1 else ('add', tuple(parts_))
            elif a_[0] in ('list', 'tuple') and a_[1] and not any(isinstance(x_, tuple) and x_ and x_[0] in ('when', 'each', 'star') for x_ in a_[1]):
                # b''.join((a, b, c)) is a + b + c
                acc_ = a_[1][0]
                for x_ in a_[1][1:]:
                    acc_ = mk_bin('+', acc_, x_)
                term = acc_
            elif a_[0] in ('attr', 'param', 'acc') or (a_[0] == 'call' and a_[1] in ('builtins.list', 'builtins.tuple')):
                # b''.join(xs) over a sequence held somewhere: the concatenation of its elements, in order
                seq_ = a_[3][0][1] if a_[0] == 'call' and len(a_[3]) == 1 else a_
                if seq_[0] != 'call':
                    lid_ = self._new_id()
                    term = ('sum', lid_, seq_, ('elem', seq_, lid_))
        # a small literal table read with .get(key, default) is the chain of conditionals it abbreviates
        if name == 'get' and recv is not None and recv[0] == 'dict' and 1 <= len(bound) <= 2 and 0 < len(recv[1]) <= 24 \
                and all(isinstance(x, tuple) and len(x) == 2 and x[0][0] in ('const', 'global') for x in recv[1]) \
                and not e.keywords and all(t[0] != 'star' for _, t in bound):
            key = bound[0][1]
            out = bound[1][1] if len(bound) == 2 else NONE
            for k, v in reversed(recv[1]):
                out = mk_cond(self.mk_cmp('==', key, k), v, out)
            term = out
        if record:
            self._seq += 1
            self.calls.append(CallRec(e, name, callee, quals, lib, recv, dict(bound), norm_pc(pc), term, self, self._seq))
        return term


_NOVAL = object()


class _ModScope:
    """a function-like scope for evaluating module-level expressions"""

    def __init__(self, module):
        self.module = module
        self.cls = None
        self.qual = module.name + '.<module>'
        self.name = '<module>'
        self.node = ast.parse('def _m(): pass').body[0]
        self.self_name = None
        self.is_classmethod = self.is_staticmethod = self.is_property = False
        self.params, self.kwonly = [], []

    def call_params(self):
        return []

    def defaults(self):
        return {}


def module_body(prog, res, module):
    """value terms of the module's top-level statements (the script part of pyikev2.py)"""
    sv = SVal(prog, res, _ModScope(module), run=False)
    sv._in_const = True
    r = sv.block(module.tree.body, {}, ())
    sv.end_env = r[0] if r is not None else None
    return sv


def module_scope(prog, res, module):
    sv = SVal(prog, res, _ModScope(module), run=False)
    sv._in_const = True
    return sv


def _local_name(sv, dotted):
    """a dotted global as it can be written in the function's module (for const_eval)"""
    parts = dotted.split('.')
    if parts[0] == sv.mod.name:
        return '.'.join(parts[1:])
    for local, imp in sv.mod.imports.items():
        if imp[0] == 'module' and imp[1] == parts[0]:
            return '.'.join([local] + parts[1:])
        if imp[0] == 'from' and len(parts) >= 2 and imp[1] == parts[0] and imp[2] == parts[1]:
            return '.'.join([local] + parts[2:])
    return dotted


class CallRec:
    __slots__ = ('node', 'name', 'callee', 'quals', 'lib', 'recv', 'args', 'pc', 'term', 'sv', 'seq')

    def __init__(self, node, name, callee, quals, lib, recv, args, pc, term, sv, seq=0):
        self.node, self.name, self.callee, self.quals, self.lib = node, name, callee, quals, lib
        self.recv, self.args, self.pc, self.term, self.sv, self.seq = recv, args, pc, term, sv, seq

    def arg(self, name, default=None):
        return self.args.get(name, default)

    def __repr__(self):
        return '<call %s at L%s>' % (self.callee, getattr(self.node, 'lineno', '?'))


# ------------------------------------------------------------------------------------------------- helpers
def _load(target):
    import copy
    t = copy.deepcopy(target)
    for x in ast.walk(t):
        if hasattr(x, 'ctx'):
            x.ctx = ast.Load()
    return t


def _key(node):
    """environment key of a Name / attribute chain (`self.child_sas`)"""
    if isinstance(node, ast.Name):
        return node.id
    return attr_chain(node)


def _accumulation_only(body):
    """the statements only rebind local names and append to local lists (a splitting / summing loop)"""
    for s in body:
        if isinstance(s, ast.Expr):
            c = s.value
            if not (isinstance(c, ast.Call) and isinstance(c.func, ast.Attribute) and c.func.attr == 'append'
                    and isinstance(c.func.value, ast.Name) and len(c.args) == 1 and not c.keywords):
                return False
            inner = c.args
        elif isinstance(s, ast.Assign):
            if not all(isinstance(t, ast.Name) for t in s.targets):
                return False
            inner = [s.value]
        elif isinstance(s, ast.AugAssign):
            if not isinstance(s.target, ast.Name):
                return False
            inner = [s.value]
        else:
            return False
        for e in inner:
            for x in ast.walk(e):
                if isinstance(x, ast.Call) and not (isinstance(x.func, ast.Name) and x.func.id in ('len', 'int', 'bytes', 'min', 'max')):
                    return False
                if isinstance(x, (ast.Lambda, ast.ListComp, ast.GeneratorExp, ast.DictComp, ast.SetComp, ast.NamedExpr, ast.Await, ast.Yield)):
                    return False
    return True


def _gated_iter(it):
    """(c, X) when the iterable term is `X if c else <empty literal>` - directly, or as range(len(...)) of it; None otherwise"""
    def empty(t):
        return t[0] in ('list', 'tuple') and not t[1]
    if it[0] == 'cond' and empty(it[3]) and not empty(it[2]):
        return it[1], it[2]
    if it[0] == 'cond' and empty(it[2]) and not empty(it[3]):
        return mk_not(it[1]), it[3]
    if it[0] == 'call' and it[1] == 'builtins.range':
        args = [t for _, t in it[3]]
        hi = args[-1] if len(args) in (1, 2) else None
        lo = args[0] if len(args) == 2 else const(0)
        if hi is not None and lo == const(0) and hi[0] == 'call' and hi[1] == 'builtins.len' and len(hi[3]) == 1:
            g = _gated_iter(hi[3][0][1])
            if g is not None:
                inner = ('call', 'builtins.len', hi[2], ((hi[3][0][0], g[1]),)) + tuple(hi[4:])
                return g[0], ('call', 'builtins.range', it[2], tuple((k, (inner if t is hi else t)) for k, t in it[3])) + tuple(it[4:])
    return None


def _conditional(item):
    return isinstance(item, tuple) and item and item[0] in ('when', 'each')


def _under(item, atom):
    """a conditional item that additionally needs `atom` (when it does not already say so)"""
    if atom[0][0] == 'tryjoin':
        return item
    if item[0] == 'when':
        return item if atom in item[1] else ('when', norm_pc((atom,) + item[1])) + item[2:]
    if item[0] == 'each':
        return item if atom in item[3] else ('each', item[1], item[2], norm_pc((atom,) + item[3]), item[4])
    return item


def _each(lid, it, item):
    if isinstance(item, tuple) and item and item[0] == 'when' and len(item) == 3:
        return ('each', lid, it, item[1], item[2])
    if isinstance(item, tuple) and item and item[0] == 'when' and len(item) == 4:
        return ('each', lid, it, item[1], ('kv', item[2], item[3]))
    return ('each', lid, it, (), item)


def mk_attr(b, name):
    # a field of a namedtuple that was just built is the constructor argument
    if b[0] == 'call' and isinstance(b[1], str) and b[1].startswith('namedtuple.'):
        for p, v in b[3]:
            if p == name:
                return v
    # a field of record._replace(f=v, ..) is v when f is replaced, else the field of the record
    if b[0] == 'call' and b[1] == 'method._replace' and len(b) >= 4:
        for p, v in b[3]:
            if p == name:
                return v
        if all(isinstance(p, str) and not p.startswith('#') and p != '**' for p, _ in b[3]):
            return mk_attr(b[2], name)
    if b[0] == 'cond':
        a1, a2 = mk_attr(b[2], name), mk_attr(b[3], name)
        if a1[0] != 'attr' or a2[0] != 'attr':
            return mk_cond(b[1], a1, a2)
    return ('attr', b, name)


def mk_index(b, i):
    if i[0] == 'idx' and i[1] == b:
        return ('elem', b, i[2])
    if i[0] == 'idx' and b[0] == 'call' and b[1] in ('builtins.list', 'builtins.tuple') and len(b[3]) == 1 and b[3][0][1] == i[1]:
        return ('elem', i[1], i[2])       # the i-th element of a copy of X is the i-th element of X
    # (key, value) pairs of a mapping's items()
    if b[0] == 'elem' and b[1][0] == 'call' and b[1][1] == 'method.items' and is_const(i) and cval(i) in (0, 1) and not isinstance(cval(i), bool):
        return ('key' if cval(i) == 0 else 'value', b[1][2], b[2])
    if b[0] in ('tuple', 'list') and is_const(i) and isinstance(cval(i), int) and not isinstance(cval(i), bool):
        items = b[1]
        if not any(isinstance(x, tuple) and x and x[0] in ('when', 'each', 'star', 'acc') for x in items):
            n = cval(i)
            if -len(items) <= n < len(items):
                return items[n]
    if b[0] == 'dict':
        for ent in b[1]:
            if len(ent) == 2 and ent[0] == i and all(len(x) == 2 for x in b[1]):
                return ent[1]
        # entries written later under a condition override the earlier ones when that condition holds
        if is_const(i) and all(isinstance(x, tuple) and ((len(x) == 2 and x[0] != 'when') or (len(x) == 4 and x[0] == 'when')) for x in b[1]) \
                and all(is_const(x[0] if len(x) == 2 else x[2]) for x in b[1]):
            val = None
            for x in b[1]:
                if len(x) == 2 and x[0] == i:
                    val = x[1]
                elif len(x) == 4 and x[2] == i and val is not None:
                    val = mk_cond(pc_term(norm_pc(tuple(x[1]))), x[3], val)
            if val is not None:
                return val
        # {True: a, False: b}[test]
        if len(b[1]) == 2 and all(len(x) == 2 for x in b[1]) and {b[1][0][0], b[1][1][0]} == {TRUE, FALSE}:
            d = dict(b[1])
            if i[0] in ('cmp', 'not', 'and', 'or'):
                return mk_cond(i, d[TRUE], d[FALSE])
            if i[0] == 'call' and i[1] == 'builtins.bool' and len(i[3]) == 1:
                return mk_cond(i[3][0][1], d[TRUE], d[FALSE])
    return ('index', b, i)


def norm_pc(pc):
    out = []
    for t, pol in pc:
        if t[0] == 'not':
            t, pol = t[1], not pol
        while t[0] == 'call' and t[1] == 'builtins.bool' and len(t[3]) == 1:
            t = t[3][0][1]      # bool(x) as a condition is x
            if t[0] == 'not':
                t, pol = t[1], not pol
        if is_const(t):
            continue
        if t[0] == 'and' and pol:
            for x in t[1]:
                out.extend(norm_pc(((x, True),)))
            continue
        if t[0] == 'or' and not pol:
            for x in t[1]:
                out.extend(norm_pc(((x, False),)))
            continue
        if (t, pol) not in out:
            out.append((t, pol))
    return tuple(out)


def pc_term(pc):
    items = tuple(t if pol else mk_not(t) for t, pol in pc)
    return mk_bool('and', items) if items else TRUE


def pc_has(pc, t, pol=True):
    """the path condition contains the atom (after normalisation)"""
    for a in norm_pc(((t, pol),)):
        if a not in norm_pc(pc):
            return False
    return True


def subterms(t):
    todo = [t]
    while todo:
        x = todo.pop()
        yield x
        if isinstance(x, tuple):
            for y in x:
                if isinstance(y, tuple):
                    todo.append(y)
        elif isinstance(x, dict):
            todo.extend(x.values())


def mentions(t, sub):
    return any(x == sub for x in subterms(t))


def show(t, depth=0):
    """readable, Python-like rendering of a term (for messages and evidence)"""
    if not isinstance(t, tuple) or not t:
        return repr(t)
    k = t[0]
    if depth > 12:
        return '...'
    s = lambda x: show(x, depth + 1)
    if k == 'param':
        return t[1]
    if k == 'global':
        return t[1]
    if k == 'const':
        return repr(t[2])
    if k == 'attr':
        return '%s.%s' % (s(t[1]), t[2])
    if k == 'call':
        callee = t[1] if isinstance(t[1], str) else ('|'.join(t[1]) if t[1] and isinstance(t[1][0], str) and t[1][0] != 'dyn'
                                                     else s(t[1][1]))
        recv = '' if t[2] == NONE else s(t[2]) + '->'
        return '%s%s(%s)' % (recv, callee, ', '.join(('%s=%s' % (p, s(v))) if not p.startswith('#') else s(v) for p, v in t[3]))
    if k == 'add':
        return ' + '.join(s(x) for x in t[1])
    if k == 'bin':
        par = lambda x: '(%s)' % s(x) if x[0] == 'add' else s(x)
        return '(%s %s %s)' % (par(t[2]), t[1], par(t[3]))
    if k == 'not':
        return 'not (%s)' % s(t[1])
    if k == 'cmp':
        return '%s %s %s' % (s(t[2]), t[1], s(t[3]))
    if k in ('and', 'or'):
        return '(' + (' %s ' % k).join(s(x) for x in t[1]) + ')'
    if k == 'cond':
        return '(%s if %s else %s)' % (s(t[2]), s(t[1]), s(t[3]))
    if k == 'index':
        return '%s[%s]' % (s(t[1]), s(t[2]))
    if k == 'slice':
        return '%s[%s:%s]' % (s(t[1]), '' if t[2] == NONE else s(t[2]), '' if t[3] == NONE else s(t[3]))
    if k == 'tuple':
        return '(' + ', '.join(s(x) for x in t[1]) + ')'
    if k in ('list', 'set', 'cat'):
        return '[' + ', '.join(s(x) for x in t[1]) + ']'
    if k == 'dict':
        return '{' + ', '.join(('%s: %s' % (s(e[0]), s(e[1]))) if len(e) == 2 else s(e) for e in t[1]) + '}'
    if k == 'when':
        if len(t) == 3:
            return '%s when %s' % (s(t[2]), show_pc(t[1]))
        return '%s: %s when %s' % (s(t[2]), s(t[3]), show_pc(t[1]))
    if k == 'each':
        return '%s for #%d in %s%s' % (s(t[4]), t[1], s(t[2]), (' if ' + show_pc(t[3])) if t[3] else '')
    if k == 'elem':
        return 'elem#%d(%s)' % (t[2], s(t[1]))
    if k == 'idx':
        return 'idx#%d(%s)' % (t[2], s(t[1]))
    if k == 'star':
        return '*' + s(t[1])
    if k == 'fstr':
        return 'f"' + ''.join(x[2] if x[0] == 'const' else '{%s}' % s(x[1]) for x in t[1]) + '"'
    if k == 'kv':
        return '%s: %s' % (s(t[1]), s(t[2]))
    return '%s(%s)' % (k, ', '.join(s(x) if isinstance(x, tuple) else repr(x) for x in t[1:]))


def show_pc(pc):
    return ' and '.join(('' if pol else 'not ') + show(t) for t, pol in pc) or 'always'


def _has_lambda(t):
    return isinstance(t, tuple) and bool(t) and (t[0] == 'lambda' or (t[0] == 'cond' and any(_has_lambda(x) for x in t[2:])))


def subst_params(t, mapping):
    """term t with every ('param', n), n in mapping, replaced"""
    if isinstance(t, tuple):
        if len(t) == 2 and t[0] == 'param' and t[1] in mapping:
            return mapping[t[1]]
        if t and t[0] == 'const':
            return t
        return tuple(subst_params(x, mapping) for x in t)
    return t


def refold(t):
    """a term after substitution, with the fields of records that have become visible (`ChildSa(proposal=p, ..).proposal`) read off"""
    if isinstance(t, tuple):
        if t and t[0] == 'const':
            return t
        t2 = tuple(refold(x) for x in t)
        if len(t2) == 3 and t2[0] == 'attr' and isinstance(t2[1], tuple) and isinstance(t2[2], str):
            return mk_attr(t2[1], t2[2])
        return t2
    return t


def strip_ids(t):
    """terms with loop / try identifiers erased, for comparing values from different evaluations"""
    if isinstance(t, tuple):
        if t and t[0] in ('elem', 'idx', 'key', 'value') and len(t) == 3:
            return (t[0], strip_ids(t[1]), 0)
        if t and t[0] == 'each':
            return ('each', 0, strip_ids(t[2]), strip_ids(t[3]), strip_ids(t[4]))
        if t and t[0] in ('loopvar', 'loopout', 'acc') and len(t) == 3:
            return (t[0], t[1], 0)
        if t and t[0] == 'sum':
            return ('sum', 0, strip_ids(t[2]), strip_ids(t[3]))
        if t and t[0] == 'call' and len(t) == 5:
            return ('call', t[1], strip_ids(t[2]), tuple((k, strip_ids(v)) for k, v in t[3]))
        if t and t[0] in ('exc', 'caught', 'tryjoin'):
            return tuple(strip_ids(x) if isinstance(x, tuple) else (0 if isinstance(x, int) else x) for x in t)
        return tuple(strip_ids(x) for x in t)
    return t


def same(a, b):
    return strip_ids(a) == strip_ids(b)
