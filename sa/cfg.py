"""Statement-level control-flow graph (DESIGN 2.3).

Node kinds
  entry / exit (normal return) / xexit (exception leaves the function)
  stmt     simple statement (Assign, AugAssign, AnnAssign, Expr, Return, Raise, Delete,
           Pass, Break, Continue, Import, nested def/class, With header)
  cond     one atom of an if/while/assert test; successors labelled 'T' / 'F'
  iter     head of a for loop; successors 'body' / 'done'
  handler  entry of an except clause
  afail    the failing side of an `assert` (raises AssertionError)

Exception edges are added afterwards by a_escape (label ('exc', 'ClassName')).
"""
import ast

from .model import AnalysisError, src


class Node:
    __slots__ = ('id', 'kind', 'ast', 'stmt', 'succ', 'pred', 'try_ctx', 'raises', 'lineno', 'handler_of')

    def __init__(self, id, kind, astnode, stmt, try_ctx):
        self.id = id
        self.kind = kind
        self.ast = astnode
        self.stmt = stmt
        self.succ = []      # (label, Node)
        self.pred = []      # (label, Node)
        self.try_ctx = try_ctx   # tuple of (ast.Try, 'body'|'handler'|'else', handler_node|None) outermost first
        self.raises = None  # filled by a_escape: dict class -> witness
        self.lineno = getattr(astnode, 'lineno', getattr(stmt, 'lineno', 0))
        self.handler_of = None

    def text(self):
        if self.kind in ('entry', 'exit', 'xexit'):
            return self.kind
        if self.kind == 'iter':
            return 'for %s in %s' % (src(self.ast.target), src(self.ast.iter))
        if self.kind == 'handler':
            return 'except %s' % (src(self.ast.type) if self.ast.type is not None else '')
        if self.kind == 'afail':
            return 'assert-fail ' + src(self.ast.test)
        if self.kind == 'finally':
            return 'finally (exception in flight)'
        if self.kind == 'stmt' and isinstance(self.ast, (ast.With,)):
            return 'with ' + ', '.join(src(i) for i in self.ast.items)
        if self.kind == 'stmt' and isinstance(self.ast, (ast.FunctionDef, ast.ClassDef)):
            return 'def ' + self.ast.name
        return src(self.ast)

    def exprs(self):
        """The expressions evaluated *at this node* (not in nested statements)."""
        a = self.ast
        if self.kind == 'cond':
            return [a]
        if self.kind == 'iter':
            return [a.iter]
        if self.kind == 'handler':
            return [a.type] if a.type is not None else []
        if self.kind == 'afail':
            return [a.msg] if a.msg is not None else []
        if self.kind == 'stmt':
            if isinstance(a, ast.With):
                return [i.context_expr for i in a.items]
            if isinstance(a, (ast.FunctionDef, ast.ClassDef, ast.AsyncFunctionDef)):
                return list(a.decorator_list)
            return [a]
        return []

    def __repr__(self):
        return '<N%d %s L%s %s>' % (self.id, self.kind, self.lineno, self.text()[:60])


class CFG:
    def __init__(self, fi):
        self.fi = fi
        self.nodes = []
        self.entry = self._new('entry', None, None, ())
        self.exit = self._new('exit', None, None, ())
        self.xexit = self._new('xexit', None, None, ())
        self.loops = []   # (head nodes list, ast loop)
        self.finally_exc = {}   # id(ast.Try) -> (entry node, exit node) of the copy of the finally block run with an exception in flight

    def _new(self, kind, astnode, stmt, try_ctx):
        n = Node(len(self.nodes), kind, astnode, stmt, try_ctx)
        self.nodes.append(n)
        return n

    @staticmethod
    def link(a, label, b):
        if (label, b) not in a.succ:
            a.succ.append((label, b))
            b.pred.append((label, a))

    # ------------------------------------------------------------- queries
    def find(self, pred, kinds=None):
        return [n for n in self.nodes if (kinds is None or n.kind in kinds) and pred(n)]

    def reach(self, starts, blocked_edges=(), blocked_nodes=(), follow_exc=True):
        """Set of nodes reachable from `starts` (inclusive) without traversing a blocked
        edge (src_id, label, dst_id) or entering a blocked node."""
        be = set(blocked_edges)
        bn = set(n.id for n in blocked_nodes)
        seen = set()
        todo = [s for s in starts if s.id not in bn]
        while todo:
            n = todo.pop()
            if n.id in seen:
                continue
            seen.add(n.id)
            for lab, m in n.succ:
                if not follow_exc and isinstance(lab, tuple):
                    continue
                if (n.id, lab, m.id) in be or m.id in bn:
                    continue
                if m.id not in seen:
                    todo.append(m)
        return seen

    def reach_filtered(self, starts, edge_ok):
        """reachability following only edges for which edge_ok(node, label, succ) is true"""
        seen = set()
        todo = list(starts)
        while todo:
            n = todo.pop()
            if n.id in seen:
                continue
            seen.add(n.id)
            for lab, m in n.succ:
                if m.id not in seen and edge_ok(n, lab, m):
                    todo.append(m)
        return seen

    def path_to(self, start, goal_ids, blocked_edges=(), blocked_nodes=()):
        """One shortest path (list of (node,label)) from start to any goal, or None."""
        be = set(blocked_edges)
        bn = set(n.id for n in blocked_nodes)
        from collections import deque
        prev = {start.id: None}
        dq = deque([start])
        while dq:
            n = dq.popleft()
            if n.id in goal_ids:
                out = []
                cur = n.id
                while prev[cur] is not None:
                    p, lab = prev[cur]
                    out.append((self.nodes[p], lab))
                    cur = p
                out.reverse()
                out.append((n, None))
                return out
            for lab, m in n.succ:
                if (n.id, lab, m.id) in be or m.id in bn or m.id in prev:
                    continue
                prev[m.id] = (n.id, lab)
                dq.append(m)
        return None

    def dominators(self):
        """dom[n.id] = set of node ids dominating n (forward, from entry)."""
        ids = [n.id for n in self.nodes]
        reach = self.reach([self.entry])
        allset = set(reach)
        dom = {i: set(allset) for i in reach}
        dom[self.entry.id] = {self.entry.id}
        changed = True
        order = [i for i in ids if i in reach]
        while changed:
            changed = False
            for i in order:
                if i == self.entry.id:
                    continue
                preds = [p.id for _, p in self.nodes[i].pred if p.id in reach]
                if not preds:
                    continue
                new = set.intersection(*(dom[p] for p in preds)) | {i}
                if new != dom[i]:
                    dom[i] = new
                    changed = True
        return dom

    def paths(self, start=None, stop=None, max_paths=200000, follow_exc=True, edge_budget=1, merge_exc=True):
        """Enumerate paths from `start` (default entry) until a node for which stop(node)
        is true, or exit/xexit.  Each edge is taken at most `edge_budget` times per path
        (loops are cut at the back edge).  Yields lists of (node, label_taken)."""
        start = start or self.entry
        count = 0
        stack = [(start, [], {})]
        while stack:
            n, path, used = stack.pop()
            if n.kind in ('exit', 'xexit') or (stop is not None and stop(n) and path):
                count += 1
                if count > max_paths:
                    raise AnalysisError('path explosion in %s' % self.fi.qual)
                yield path + [(n, None)]
                continue
            nexts = []
            exc_targets = set()
            for lab, m in n.succ:
                if not follow_exc and isinstance(lab, tuple):
                    continue
                if merge_exc and isinstance(lab, tuple):
                    if m.id in exc_targets:
                        continue
                    exc_targets.add(m.id)
                k = (n.id, lab, m.id)
                if used.get(k, 0) >= edge_budget:
                    continue
                nexts.append((lab, m, k))
            if not nexts:
                # dead end caused by loop cutting: drop
                continue
            for lab, m, k in reversed(nexts):
                u = dict(used)
                u[k] = u.get(k, 0) + 1
                stack.append((m, path + [(n, lab)], u))

    def stats(self):
        return {'nodes': len(self.nodes), 'edges': sum(len(n.succ) for n in self.nodes)}


class _Builder:
    def __init__(self, fi):
        self.fi = fi
        self.g = CFG(fi)
        self.loop_stack = []   # (continue_target, break_list, depth of fin_stack at loop entry)
        self.fin_stack = []    # enclosing try statements with a finally block: (ast.Try, ctx of that statement)

    def build(self):
        body = self.fi.node.body
        outs = self.block(body, [(self.g.entry, None)], ())
        for n, lab in outs:
            CFG.link(n, lab, self.g.exit)
        return self.g

    def run_finallies(self, ins, down_to):
        """return / break / continue leaving try statements that have a finally block: inline a copy of each such block,
        innermost first, down to (not including) stack depth `down_to`"""
        saved = self.fin_stack
        for k in range(len(saved) - 1, down_to - 1, -1):
            st, ctx = saved[k]
            self.fin_stack = saved[:k]
            ins = self.block(st.finalbody, ins, ctx)
        self.fin_stack = saved
        return ins

    def connect(self, ins, node):
        for n, lab in ins:
            CFG.link(n, lab, node)

    def block(self, stmts, ins, ctx):
        for st in stmts:
            ins = self.stmt(st, ins, ctx)
        return ins

    def cond(self, expr, ins, ctx, stmt):
        """Build atom nodes for `expr`; returns (true_outs, false_outs)."""
        if isinstance(expr, ast.BoolOp) and isinstance(expr.op, ast.And):
            falses = []
            cur = ins
            for v in expr.values:
                t, f = self.cond(v, cur, ctx, stmt)
                falses += f
                cur = t
            return cur, falses
        if isinstance(expr, ast.BoolOp) and isinstance(expr.op, ast.Or):
            trues = []
            cur = ins
            for v in expr.values:
                t, f = self.cond(v, cur, ctx, stmt)
                trues += t
                cur = f
            return trues, cur
        if isinstance(expr, ast.UnaryOp) and isinstance(expr.op, ast.Not):
            t, f = self.cond(expr.operand, ins, ctx, stmt)
            return f, t
        n = self.g._new('cond', expr, stmt, ctx)
        self.connect(ins, n)
        return [(n, 'T')], [(n, 'F')]

    def stmt(self, st, ins, ctx):
        g = self.g
        if isinstance(st, ast.If):
            t, f = self.cond(st.test, ins, ctx, st)
            outs = self.block(st.body, t, ctx)
            outs += self.block(st.orelse, f, ctx) if st.orelse else f
            return outs
        if isinstance(st, ast.While):
            # a join point so that `continue` and the back edge have a single target
            head_ins = list(ins)
            join = g._new('stmt', ast.Pass(), st, ctx)
            join.lineno = st.lineno
            self.connect(head_ins, join)
            is_true = isinstance(st.test, ast.Constant) and bool(st.test.value) is True
            if is_true:
                t, f = [(join, None)], []
            else:
                t, f = self.cond(st.test, [(join, None)], ctx, st)
            brk = []
            self.loop_stack.append((join, brk, len(self.fin_stack)))
            outs = self.block(st.body, t, ctx)
            self.loop_stack.pop()
            self.connect(outs, join)
            g.loops.append((join, st))
            res = self.block(st.orelse, f, ctx) if st.orelse else f
            return res + brk
        if isinstance(st, (ast.For, ast.AsyncFor)):
            head = g._new('iter', st, st, ctx)
            self.connect(ins, head)
            brk = []
            self.loop_stack.append((head, brk, len(self.fin_stack)))
            outs = self.block(st.body, [(head, 'body')], ctx)
            self.loop_stack.pop()
            self.connect(outs, head)
            g.loops.append((head, st))
            done = [(head, 'done')]
            res = self.block(st.orelse, done, ctx) if st.orelse else done
            return res + brk
        if isinstance(st, ast.Try):
            if st.finalbody:
                # copy of the finally block that runs while an exception propagates: entered through exception edges
                # (added by the escape analysis), left by re-raising at its exit node, which lives in the outer context
                fentry = g._new('finally', st, st, ctx)
                fouts = self.block(st.finalbody, [(fentry, None)], ctx)
                fexit = g._new('finally', st, st, ctx)
                self.connect(fouts, fexit)
                g.finally_exc[id(st)] = (fentry, fexit)
                self.fin_stack.append((st, ctx))
            hnodes = []
            for h in st.handlers:
                hn = g._new('handler', h, st, ctx)
                hn.handler_of = st
                hnodes.append(hn)
            bctx = ctx + ((st, 'body', tuple(hnodes)),)
            outs = self.block(st.body, ins, bctx)
            if st.orelse:
                outs = self.block(st.orelse, outs, ctx + ((st, 'else', None),))
            for h, hn in zip(st.handlers, hnodes):
                houts = self.block(h.body, [(hn, None)], ctx + ((st, 'handler', hn),))
                outs = outs + houts
            if st.finalbody:
                self.fin_stack.pop()
                # normal completion of body / else / handlers runs the finally block, then falls through
                outs = self.block(st.finalbody, outs, ctx)
            return outs
        if isinstance(st, (ast.With, ast.AsyncWith)):
            n = g._new('stmt', st, st, ctx)
            self.connect(ins, n)
            return self.block(st.body, [(n, None)], ctx)
        if isinstance(st, ast.Assert):
            t, f = self.cond(st.test, ins, ctx, st)
            fail = g._new('afail', st, st, ctx)
            self.connect(f, fail)
            return t
        if isinstance(st, ast.Return):
            n = g._new('stmt', st, st, ctx)
            self.connect(ins, n)
            outs = self.run_finallies([(n, None)], 0)
            for m, lab in outs:
                CFG.link(m, lab, g.exit)
            return []
        if isinstance(st, ast.Raise):
            n = g._new('stmt', st, st, ctx)
            self.connect(ins, n)
            return []
        if isinstance(st, ast.Break):
            n = g._new('stmt', st, st, ctx)
            self.connect(ins, n)
            if not self.loop_stack:
                raise AnalysisError('break outside loop')
            self.loop_stack[-1][1].extend(self.run_finallies([(n, None)], self.loop_stack[-1][2]))
            return []
        if isinstance(st, ast.Continue):
            n = g._new('stmt', st, st, ctx)
            self.connect(ins, n)
            for m, lab in self.run_finallies([(n, None)], self.loop_stack[-1][2]):
                CFG.link(m, lab, self.loop_stack[-1][0])
            return []
        if isinstance(st, (ast.Assign, ast.AugAssign, ast.AnnAssign, ast.Expr, ast.Delete, ast.Pass,
                           ast.Import, ast.ImportFrom, ast.Global, ast.Nonlocal,
                           ast.FunctionDef, ast.ClassDef, ast.AsyncFunctionDef)):
            n = g._new('stmt', st, st, ctx)
            self.connect(ins, n)
            return [(n, None)]
        raise AnalysisError('CFG: unsupported statement %s in %s:%d' % (type(st).__name__, self.fi.qual,
                                                                      getattr(st, 'lineno', 0)))


def build_cfg(fi):
    if fi._cfg is None:
        fi._cfg = _Builder(fi).build()
    return fi._cfg


def fmt_path(path, limit=40):
    out = []
    for n, lab in path:
        if n.kind in ('entry',):
            continue
        s = 'L%s %s' % (n.lineno, n.text()[:70])
        if lab is not None:
            s += ' -[%s]->' % (lab if not isinstance(lab, tuple) else 'raise ' + lab[1])
        out.append(s)
    if len(out) > limit:
        out = out[:limit // 2] + ['...'] + out[-limit // 2:]
    return out


def _names_in(expr):
    out = set()
    for x in ast.walk(expr):
        if isinstance(x, ast.Name):
            out.add(x.id)
        elif isinstance(x, ast.Attribute):
            t = src(x)
            out.add(t)
    return out


def path_facts(path, states=None, mutates_state=None):
    """Syntactic feasibility of a CFG path.  Returns None when the path takes both
    polarities of two textually identical condition atoms (with no intervening assignment
    to anything they mention) or, with `states` (typestate.States), when the constraints on
    some `<x>.state` become unsatisfiable.  Otherwise returns {'conds': {text: 'T'|'F'},
    'state': {subject: frozenset}} as they stand at the end of the path."""
    seen = {}
    mention = {}
    st = {}
    for node, lab in path:
        if node.kind == 'cond' and lab in ('T', 'F'):
            text = src(node.ast)
            if text in seen and seen[text] != lab:
                return None
            seen[text] = lab
            mention[text] = _names_in(node.ast)
            if states is not None:
                ev = states.eval_cond(node.ast)
                if ev is not None and ev[1] is not None:
                    allowed = ev[1] if lab == 'T' else states.all - ev[1]
                    cur = st.get(ev[0], states.all) & allowed
                    if not cur:
                        return None
                    st[ev[0]] = cur
        killed = set()
        if node.kind == 'stmt' and isinstance(node.ast, (ast.Assign, ast.AugAssign, ast.AnnAssign)):
            tg = node.ast.targets if isinstance(node.ast, ast.Assign) else [node.ast.target]
            for t in tg:
                for x in ast.walk(t):
                    if isinstance(x, ast.Name) and isinstance(x.ctx, ast.Store):
                        killed.add(x.id)
                    elif isinstance(x, ast.Attribute) and isinstance(x.ctx, ast.Store):
                        killed.add(src(x))
            if states is not None and isinstance(node.ast, ast.Assign):
                for t in node.ast.targets:
                    if isinstance(t, ast.Attribute) and t.attr == 'state':
                        c = states.const(node.ast.value)
                        st[src(t)] = frozenset([c]) if c else states.all
                        killed.discard(src(t))
                        for text in [k for k, m in mention.items() if src(t) in m]:
                            seen.pop(text, None)
                            mention.pop(text, None)
        elif node.kind == 'iter' and lab == 'body':
            for x in ast.walk(node.ast.target):
                if isinstance(x, ast.Name):
                    killed.add(x.id)
        elif node.kind == 'handler' and node.ast.name:
            killed.add(node.ast.name)
        if node.kind in ('stmt', 'cond', 'iter') and states is not None:
            # a call on / with an object may change that object's state
            for e in node.exprs():
                if e is None:
                    continue
                for x in ast.walk(e):
                    if isinstance(x, ast.Call):
                        if mutates_state is not None and not mutates_state(x):
                            continue
                        objs = []
                        if isinstance(x.func, ast.Attribute):
                            objs.append(src(x.func.value))
                        objs += [src(a) for a in x.args]
                        for subj in list(st):
                            if subj.rsplit('.', 1)[0] in objs:
                                st.pop(subj, None)
                                for text in [k for k, m in mention.items() if subj in m]:
                                    seen.pop(text, None)
                                    mention.pop(text, None)
        if killed:
            for text in [k for k, m in mention.items() if m & killed or any(
                    (n + '.') in t or t == n for n in killed for t in m)]:
                seen.pop(text, None)
                mention.pop(text, None)
            for subj in [s for s in st if s.split('.')[0] in killed]:
                st.pop(subj, None)
    return {'conds': seen, 'state': st}
