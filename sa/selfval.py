"""Thorough tier: quick rules + self-validation of those rules against mutants of the current tree
(sa/mutants/engine.py, catalogue in sa/mutants/catalogue.py)."""


def run(prop, ctx):
    from .mutants import engine
    return engine.run(prop, None, ctx)
