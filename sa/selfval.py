"""Thorough tier: self-validation of the rules against AST-computed mutants of the current
tree (DESIGN 2.6 / 7).  Filled in per property in sa/mutants/; a property without a
catalogue yet runs the quick rules only."""
import importlib


def run(prop, ctx):
    try:
        mod = importlib.import_module('sa.mutants.' + prop.lower())
    except ModuleNotFoundError:
        return {'self_validation': 'no mutant catalogue for this property yet'}
    from .mutants import engine
    return engine.run(prop, mod, ctx)
