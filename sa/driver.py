"""Check driver: runs the rules of one property on /repo's current working tree, triages
reports against known_findings.json, writes evidence and replay files.

exit 0  all obligations discharged (known findings printed as KNOWN-FINDING lines)
exit 1  at least one unlisted violation (VIOLATION property=<id> replay=<path>)
exit 2  analysis error (anchor vanished, unrecognised shape, internal error)
"""
import importlib
import json
import os
import sys
import time
import traceback

from .model import AnalysisError, Program, REPO, src
from .resolve import Resolver
from .escape import Escape, ASSUMPTIONS as ESCAPE_ASSUMPTIONS

VERIF = os.path.dirname(os.path.dirname(os.path.abspath(__file__)))


class Ctx:
    def __init__(self, prop, tier='quick', root=None, quiet=False, normalise=True):
        self.prop = prop
        self.tier = tier
        self.root = root or REPO
        self.prog = Program(self.root, normalise=normalise)
        self.res = Resolver(self.prog)
        self.obligations = []   # dicts: rule, what, ok, site
        self.violations = []    # dicts: rule, key, msg, site, detail
        self.notes = []
        self.assumptions = []
        self.functions = set()
        self.stats = {}
        self.quiet = quiet
        self._escapes = {}
        self.stopped_early = None
        self.undecided = []
        self.t0 = time.time()

    # -------------------------------------------------------------- services
    def escape(self, name='default', kills=None, extra_effects=None):
        if name not in self._escapes:
            e = Escape(self.prog, self.res, kills=kills, extra_effects=extra_effects)
            e.analyse_all()
            self._escapes[name] = e
            for a in ESCAPE_ASSUMPTIONS:
                self.assume(a)
        return self._escapes[name]

    def sval(self, fi):
        """value terms (sa.sval) of a function, cached"""
        if not hasattr(self, '_svals'):
            self._svals = {}
        if fi.qual not in self._svals:
            from .sval import SVal
            self._svals[fi.qual] = SVal(self.prog, self.res, fi)
        return self._svals[fi.qual]

    def func(self, qual):
        f = self.prog.func(qual)
        self.functions.add(qual)
        return f

    def site(self, fi, node):
        return '%s:%s %s' % (os.path.basename(fi.module.path), getattr(node, 'lineno', '?'), fi.qual)

    # -------------------------------------------------------------- recording
    def ok(self, rule, what, site=None):
        self.obligations.append({'rule': rule, 'what': what, 'ok': True, 'site': site})

    def bad(self, rule, key, msg, site=None, detail=None):
        """key: position-independent identification of the offending construct
        (file, function, normalised text) - used for known-finding matching."""
        self.obligations.append({'rule': rule, 'what': msg, 'ok': False, 'site': site})
        self.violations.append({'rule': rule, 'key': key, 'msg': msg, 'site': site, 'detail': detail})

    def check(self, cond, rule, what, key=None, site=None, detail=None):
        if cond:
            self.ok(rule, what, site)
        else:
            self.bad(rule, key or what, 'FAILED: ' + what, site, detail)
        return cond

    def unrecognised(self, rule, what, site=None, detail=None):
        """the construct a rule is about is written in a shape the rule cannot decide (neither the confirmed one nor an
        identifiable deviation from it): no verdict for this rule - the run ends as ANALYSIS-ERROR (exit 2) unless a
        violation was positively identified elsewhere"""
        self.undecided.append({'rule': rule, 'what': what, 'site': site, 'detail': detail})

    def note(self, text):
        if text not in self.notes:
            self.notes.append(text)

    def assume(self, text):
        if text not in self.assumptions:
            self.assumptions.append(text)

    def require(self, cond, msg):
        if not cond:
            raise AnalysisError(msg)

    def floor(self, what, count, minimum, rule=None):
        """A rule matching fewer sites than confirmed by hand cannot pass vacuously.
        Without `rule` the anchor is structural (the analysis itself is in doubt): ANALYSIS-ERROR, exit 2.
        With `rule` the anchor is the guard / test / reset the property relies on: its absence is the violation."""
        self.stats[what] = count
        if count < minimum:
            if rule is not None:
                self.bad(rule, (rule, 'missing', what), 'the code no longer contains %s (found %d, the property needs at least %d)'
                         % (what, count, minimum))
                return False
            raise AnalysisError('anchor vanished: %s matched %d site(s), expected at least %d'
                                % (what, count, minimum))
        return True


def load_known():
    path = os.path.join(VERIF, 'known_findings.json')
    if not os.path.exists(path):
        return []
    with open(path) as f:
        return json.load(f).get('findings', [])


def key_str(k):
    return k if isinstance(k, str) else ' | '.join(str(x) for x in k)


def run_rules(prop, tier='quick', root=None):
    ctx = Ctx(prop, tier, root)
    mod = importlib.import_module('sa.rules.' + prop.lower())
    try:
        mod.run(ctx)
        # necessary condition of every property about "each IKE_SA / message / SA / connection": the state the analysed functions keep
        # per object is not shared between objects (rule SS, sa.rules.common.no_shared_mutable_state; DESIGN.md 8.7 round 6)
        from .rules import common as _common
        _common.no_shared_mutable_state(ctx, 'SS')
    except Exception as ex:
        # a construct was already reported as a violation: the later rules could not be evaluated on this tree
        # (usually because they build on the construct that is gone); report what was found instead of hiding it
        if not ctx.violations:
            raise
        ctx.note('analysis stopped after the reported violation(s): %s: %s' % (type(ex).__name__, str(ex)[:200]))
        ctx.stopped_early = '%s: %s' % (type(ex).__name__, str(ex)[:200])
    return ctx, mod


def triage(ctx, known):
    """split violations into known findings and new ones"""
    kn = [k for k in known if k.get('property') == ctx.prop and k.get('status', 'known') == 'known']
    new, old = [], []
    for v in ctx.violations:
        ks = key_str(v['key'])
        m = next((k for k in kn if k.get('rule') == v['rule'] and k.get('key') == ks), None)
        if m is not None:
            old.append((v, m))
        else:
            new.append(v)
    return new, old


def write_evidence(ctx, mod, wall, nviol, extra=None):
    obl = ctx.obligations
    rules = sorted(set(o['rule'] for o in obl))
    distinct = len(set((o['rule'], o['what'], o['site']) for o in obl))
    samples = []
    seen_rules = set()
    for o in obl:
        if o['rule'] not in seen_rules or len(samples) < 12:
            seen_rules.add(o['rule'])
            samples.append({'rule': o['rule'], 'obligation': o['what'], 'site': o['site'], 'discharged': o['ok']})
        if len(samples) >= 40:
            break
    cov = {
        'explanation': getattr(mod, 'EXPLANATION', 'static analysis of /repo working tree'),
        'obligations': len(obl),
        'discharged': sum(1 for o in obl if o['ok']),
        'evaluations': max(1, len(obl)),
        'distinct_nontrivial': max(distinct, 0),
        'rule': 'one obligation per (rule, construct) instance found by semantic anchor in the current tree; '
                'distinct = distinct (rule, obligation text, site) triples',
        'samples': samples,
        'rules': rules,
        'files': ctx.prog.digest(),
        'functions_analysed': sorted(ctx.functions),
        'stats': ctx.stats,
        'notes': ctx.notes,
        'call_resolution': ctx.res.stats,
        'normalisation': ctx.prog.normalisation or {},
        'value_terms': {'functions_evaluated': len(getattr(ctx, '_svals', {})),
                        'calls_recorded': sum(len(v.calls) for v in getattr(ctx, '_svals', {}).values()),
                        'stores_recorded': sum(len(v.stores) for v in getattr(ctx, '_svals', {}).values())},
        'undecided': ctx.undecided,
        'exhaustive': True,
    }
    if extra:
        cov.update(extra)
    ev = {
        'property_id': ctx.prop,
        'tier': ctx.tier,
        'seed': int(os.environ.get('VERIF_SEED', '0') or 0),
        'level': 'other',
        'coverage': cov,
        'assumptions': ctx.assumptions + list(getattr(mod, 'ASSUMPTIONS', [])),
        'wall_s': round(wall, 3),
        'violations': nviol,
    }
    os.makedirs(os.path.join(VERIF, 'evidence'), exist_ok=True)
    with open(os.path.join(VERIF, 'evidence', ctx.prop + '.json'), 'w') as f:
        json.dump(ev, f, indent=1, default=str)


def main(argv):
    import argparse
    ap = argparse.ArgumentParser()
    ap.add_argument('prop')
    ap.add_argument('--tier', default=os.environ.get('VERIF_TIER', 'quick'))
    ap.add_argument('--replay')
    ap.add_argument('--root', default=None)
    ap.add_argument('--no-evidence', action='store_true')
    a = ap.parse_args(argv)
    prop = a.prop.upper()
    if a.tier not in ('quick', 'thorough'):
        a.tier = 'quick'
    if a.replay:
        with open(a.replay) as f:
            print(json.dumps(json.load(f), indent=1))
        return 0
    t0 = time.time()
    try:
        ctx, mod = run_rules(prop, a.tier, a.root)
        extra = {}
        if a.tier == 'thorough':
            from . import selfval
            extra = selfval.run(prop, ctx)
        known = load_known()
        new, old = triage(ctx, known)
        for v, k in old:
            print('KNOWN-FINDING: property=%s %s [%s] %s' % (prop, k.get('what', v['msg']), v['rule'], v['site'] or ''))
        rc = 0
        os.makedirs(os.path.join(VERIF, 'replay'), exist_ok=True)
        for i, v in enumerate(new):
            path = os.path.join(VERIF, 'replay', '%s-%d.json' % (prop, i))
            with open(path, 'w') as f:
                json.dump({'property': prop, 'rule': v['rule'], 'key': key_str(v['key']), 'message': v['msg'],
                           'site': v['site'], 'detail': v['detail']}, f, indent=1, default=str)
            print('%s: %s' % (v['rule'], v['msg']))
            if v['site']:
                print('    at %s' % v['site'])
            print('VIOLATION property=%s replay=%s' % (prop, path))
            rc = 1
        if not a.no_evidence:
            write_evidence(ctx, mod, time.time() - t0, len(new), extra)
        if rc == 0 and ctx.undecided:
            for u in ctx.undecided:
                print('ANALYSIS-ERROR property=%s rule %s cannot decide this tree: %s%s' % (
                    prop, u['rule'], u['what'], (' at ' + u['site']) if u['site'] else ''))
            rc = 2
        if ctx.stopped_early:
            print('NOTE property=%s later rules were not evaluated on this tree (%s)' % (prop, ctx.stopped_early))
        nob = len(ctx.obligations)
        print('%s: %d obligations, %d discharged, %d known finding(s), %d new violation(s) [%s, %.2fs]'
              % (prop, nob, sum(1 for o in ctx.obligations if o['ok']), len(old), len(new), a.tier,
                 time.time() - t0))
        return rc
    except AnalysisError as ex:
        print('ANALYSIS-ERROR property=%s %s' % (prop, ex))
        return 2
    except Exception as ex:
        traceback.print_exc()
        print('ANALYSIS-ERROR property=%s internal error: %r' % (prop, ex))
        return 2


if __name__ == '__main__':
    sys.exit(main(sys.argv[1:]))
