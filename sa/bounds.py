"""Bounds facts over value terms: does the path condition of an expression (sa.sval) prove that a subscript / pop / key
lookup cannot fail?  Guard clauses, nested ifs, `and` chains, conditional expressions and local variables holding the
bound all end up as the same atoms of the path condition, so they are recognised alike.

Integer reasoning is linear and single-fact: a goal  sum(c_i * x_i) <= k  holds when one fact of the path condition (or a
built-in fact: len(x) >= 0, 0 <= idx#(x) <= len(x) - 1) has the same linear part and a bound <= k.
"""
from .sval import NONE, is_const, cval, strip_ids, norm_pc


def len_parts(x):
    """len(x) as a list of summands: len(a + b) = len(a) + len(b); len(bytes(y)) = len(y) for a byte string y; len(pack(FMT, ..)) and
    len(<constant>) are numbers - or None when x has no such reading"""
    if x[0] == 'add':
        out = []
        for y in x[1]:
            p = len_parts(y)
            out += p if p is not None else [LEN(y)]
        return out
    if x[0] == 'call' and x[1] in ('builtins.bytearray', 'builtins.bytes') and len(x[3]) == 1:
        y = x[3][0][1]
        if y[0] == 'add' or (y[0] == 'call' and y[1] in ('struct.pack', 'builtins.bytes', 'builtins.bytearray')) or (
                is_const(y) and isinstance(cval(y), bytes)):
            return len_parts(y) or [LEN(y)]
        return None
    if x[0] == 'call' and x[1] == 'struct.pack' and x[3] and is_const(x[3][0][1]) and isinstance(cval(x[3][0][1]), str):
        import struct
        try:
            return [('const', 'int', struct.calcsize(cval(x[3][0][1])))]
        except struct.error:
            return None
    if is_const(x) and isinstance(cval(x), (bytes, str)):
        return [('const', 'int', len(cval(x)))]
    return None


def linear(t):
    """(frozenset of (symbol term, coefficient), constant) for integer-valued terms"""
    if is_const(t) and isinstance(cval(t), int) and not isinstance(cval(t), bool):
        return {}, cval(t)
    if t[0] == 'call' and t[1] == 'builtins.len' and len(t[3]) == 1:
        parts = len_parts(t[3][0][1])
        if parts is not None:
            return linear(('add', tuple(parts)))
    if t[0] == 'add':
        co, k = {}, 0
        for x in t[1]:
            c2, k2 = linear(x)
            for s, v in c2.items():
                co[s] = co.get(s, 0) + v
            k += k2
        return co, k
    if t[0] == 'bin' and t[1] == '-':
        a, ka = linear(t[2])
        b, kb = linear(t[3])
        co = dict(a)
        for s, v in b.items():
            co[s] = co.get(s, 0) - v
        return co, ka - kb
    if t[0] == 'bin' and t[1] == '*' and (is_const(t[2]) or is_const(t[3])):
        c, x = (t[2], t[3]) if is_const(t[2]) else (t[3], t[2])
        if isinstance(cval(c), int):
            co, k = linear(x)
            return {s: v * cval(c) for s, v in co.items()}, k * cval(c)
    return {t: 1}, 0


def _sub(a, b):
    co = dict(a[0])
    for s, v in b[0].items():
        co[s] = co.get(s, 0) - v
    return {s: v for s, v in co.items() if v}, a[1] - b[1]


def LEN(x):
    return ('call', 'builtins.len', NONE, (('#0', x),))


def known_len(x):
    """static length of a display / struct result, else None"""
    if x[0] in ('tuple', 'list') and not any(isinstance(i, tuple) and i and i[0] in ('when', 'each', 'star', 'acc') for i in x[1]):
        return len(x[1])
    if x[0] == 'call' and x[1] in ('struct.unpack', 'struct.unpack_from') and x[3] and is_const(x[3][0][1]) and isinstance(
            cval(x[3][0][1]), str):
        from .escape import struct_fields
        try:
            return struct_fields(cval(x[3][0][1]))[0]
        except Exception:
            return None
    if is_const(x) and isinstance(cval(x), (bytes, str, tuple)):
        return len(cval(x))
    return None


def facts(pc, terms=()):
    """list of (coefs, bound): sum coefs <= bound, from the atoms of a path condition"""
    out = []
    for t, pol in norm_pc(strip_ids(tuple(pc))):
        if t[0] == 'cmp' and t[1] in ('<', '<='):
            a, b = linear(t[2]), linear(t[3])
            if pol:
                co, k = _sub(a, b)
                out.append((co, -k - (1 if t[1] == '<' else 0)))
            else:
                co, k = _sub(b, a)
                out.append((co, -k - (0 if t[1] == '<' else 1)))
        elif t[0] == 'cmp' and t[1] in ('==', 'is'):
            a, b = linear(t[2]), linear(t[3])
            if pol:
                for x, y in ((a, b), (b, a)):
                    co, k = _sub(x, y)
                    out.append((co, -k))
            else:
                # len(x) != 0  ->  len(x) >= 1
                for x, y in ((t[2], t[3]), (t[3], t[2])):
                    if x[0] == 'call' and x[1] == 'builtins.len' and y == ('const', 'int', 0):
                        out.append(({x: -1}, -1))
        elif pol and t[0] == 'call' and t[1] == 'builtins.len':
            out.append(({t: -1}, -1))
        elif pol and t[0] not in ('cmp', 'call', 'const', 'and', 'or', 'not', 'caught', 'in-lambda'):
            # truthiness of a container: non-empty
            out.append(({LEN(t): -1}, -1))
        elif pol and t[0] == 'call' and not (isinstance(t[1], str) and t[1].startswith('builtins.')):
            out.append(({LEN(t): -1}, -1))
    return out


def _builtin(goal_co):
    out = []
    for s in goal_co:
        if s[0] == 'idx':
            # 0 <= idx(seq) <= len(seq) - 1
            out.append(({s: 1, LEN(s[1]): -1}, -1))
            out.append(({s: -1}, 0))
        if s[0] == 'call' and s[1] == 'builtins.len':
            out.append(({s: -1}, 0))
    return out


def holds(goal, fs):
    """goal (coefs, bound) follows from one fact, or from one fact plus built-in facts"""
    co, k = goal
    co = {s: v for s, v in co.items() if v}
    if not co:
        return 0 <= k
    cand = list(fs) + _builtin(co)
    for fco, fk in cand:
        fco = {s: v for s, v in fco.items() if v}
        if fco == co and fk <= k:
            return True
    # goal = fact1 + fact2
    for i, (a, ka) in enumerate(cand):
        for b, kb in cand[i + 1:]:
            s = dict(a)
            for x, v in b.items():
                s[x] = s.get(x, 0) + v
            s = {x: v for x, v in s.items() if v}
            if s == co and ka + kb <= k:
                return True
    return False


def index_safe(base, idx, pc):
    """base[idx] cannot raise IndexError under the path condition"""
    base, idx = strip_ids(base), strip_ids(idx)
    fs = facts(pc)
    n = known_len(base)
    if is_const(idx) and isinstance(cval(idx), int) and not isinstance(cval(idx), bool):
        k = cval(idx)
        need = k + 1 if k >= 0 else -k
        if n is not None:
            return n >= need
        return holds(({LEN(base): -1}, -need), fs)
    if idx[0] == 'idx' and idx[1] == base:
        return True
    if idx[0] == 'elem':
        return False
    ico, ik = linear(idx)
    if n is not None:
        return holds((ico, n - 1 - ik), fs)
    goal = _sub((ico, ik), ({LEN(base): 1}, 0))
    return holds((goal[0], -1 - goal[1]), fs)


def nonempty(x, pc):
    x = strip_ids(x)
    n = known_len(x)
    if n is not None:
        return n >= 1
    return holds(({LEN(x): -1}, -1), facts(pc))


def key_safe(base, key, pc):
    """base[key] cannot raise KeyError: a membership test on the path, or a dict display that has the key"""
    base, key = strip_ids(base), strip_ids(key)
    for t, pol in norm_pc(strip_ids(tuple(pc))):
        if pol and t[0] == 'cmp' and t[1] == 'in' and t[2] == key and (t[3] == base or (
                t[3][0] == 'call' and t[3][1] == 'method.keys' and t[3][2] == base)):
            return True
    if base[0] == 'dict' and all(len(e) == 2 for e in base[1]):
        keys = [e[0] for e in base[1]]
        if key in keys:
            return True
    return False


def poly(t, subst=None):
    """integer polynomial of a term: {monomial: coefficient}, a monomial being the sorted tuple of its symbol terms;
    `subst` maps terms to polynomials (e.g. a loop cursor to its closed form)"""
    subst = subst or {}
    t = strip_ids(t)
    if t in subst:
        return dict(subst[t])
    if is_const(t) and isinstance(cval(t), int) and not isinstance(cval(t), bool):
        return {(): cval(t)} if cval(t) else {}
    if t[0] == 'add':
        out = {}
        for x in t[1]:
            for m, c in poly(x, subst).items():
                out[m] = out.get(m, 0) + c
        return {m: c for m, c in out.items() if c}
    if t[0] == 'bin' and t[1] in ('-', '*'):
        a, b = poly(t[2], subst), poly(t[3], subst)
        if t[1] == '-':
            out = dict(a)
            for m, c in b.items():
                out[m] = out.get(m, 0) - c
        else:
            out = {}
            for m1, c1 in a.items():
                for m2, c2 in b.items():
                    m = tuple(sorted(m1 + m2, key=repr))
                    out[m] = out.get(m, 0) + c1 * c2
        return {m: c for m, c in out.items() if c}
    return {(t,): 1}


def proves(test, pc):
    """the comparison (or conjunction of comparisons) `test` follows from the path condition by the linear facts above"""
    test = strip_ids(test)
    if test[0] == 'and':
        return all(proves(x, pc) for x in test[1])
    if test[0] == 'not' and test[1][0] == 'cmp' and test[1][1] in ('<', '<='):
        a, b, strict = test[1][3], test[1][2], test[1][1] == '<='      # not (a < b)  ==  b <= a ; not (a <= b) == b < a
    elif test[0] == 'cmp' and test[1] in ('<', '<='):
        a, b, strict = test[2], test[3], test[1] == '<'
    else:
        return False
    co, k = _sub(linear(a), linear(b))          # a - b <= 0 (or <= -1)
    return holds((co, -k - (1 if strict else 0)), facts(pc))
