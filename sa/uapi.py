"""A10: layout of ctypes mirrors vs the kernel's own UAPI declarations.

Both sides are static artefacts: the `_fields_` tuples of the repository's ctypes classes (read from the
syntax tree) and the C declarations of <linux/xfrm.h> / <linux/netlink.h> (a vendored copy under
sa/tables/uapi/, cross-checked against /usr/include/linux when present).  No C program is compiled or
run; layouts follow the x86-64 / LP64 natural-alignment rules for both descriptions.
"""
import ast
import hashlib
import os
import re

from .model import AnalysisError, src

HERE = os.path.dirname(os.path.abspath(__file__))
VENDORED = os.path.join(HERE, 'tables', 'uapi')

# C scalar types: name -> (size, alignment, byte order: 'N' native | 'B' big endian | '-' byte)
CTYPES_C = {
    '__u8': (1, 1, '-'), '__s8': (1, 1, '-'), 'char': (1, 1, '-'), 'unsigned char': (1, 1, '-'),
    '__u16': (2, 2, 'N'), '__s16': (2, 2, 'N'), '__be16': (2, 2, 'B'), '__le16': (2, 2, 'N'),
    '__u32': (4, 4, 'N'), '__s32': (4, 4, 'N'), '__be32': (4, 4, 'B'), 'int': (4, 4, 'N'), 'unsigned int': (4, 4, 'N'),
    '__kernel_uid32_t': (4, 4, 'N'),
    '__u64': (8, 8, 'N'), '__s64': (8, 8, 'N'), '__be64': (8, 8, 'B'), '__aligned_u64': (8, 8, 'N'),
}


C_SIGNED = {'__s8': True, '__s16': True, '__s32': True, '__s64': True, 'int': True,
            '__u8': False, '__u16': False, '__u32': False, '__u64': False, '__be16': False, '__be32': False, '__be64': False,
            '__le16': False, 'unsigned int': False, 'unsigned char': False, '__kernel_uid32_t': False, '__aligned_u64': False}
PY_SIGNED = {'c_byte': True, 'c_int16': True, 'c_int32': True, 'c_int': True, 'c_int64': True, 'c_short': True, 'c_long': True,
             'c_ubyte': False, 'c_uint8': False, 'c_uint16': False, 'c_ushort': False, 'c_uint32': False, 'c_uint': False,
             'c_uint64': False}


class CField:
    def __init__(self, name, size, align, order, offset, count=None, struct=None, signed=None):
        self.name, self.size, self.align, self.order, self.offset, self.count, self.struct = \
            name, size, align, order, offset, count, struct
        self.signed = signed        # True / False / None (not an integer scalar, or unknown)

    def __repr__(self):
        return '%s@%d+%d%s' % (self.name, self.offset, self.size, self.order)


class CStruct:
    def __init__(self, name, fields, size, align):
        self.name, self.fields, self.size, self.align = name, fields, size, align


class Headers:
    def __init__(self):
        self.texts = {}
        self.digests = {}
        self.notes = []
        for fn in ('xfrm.h', 'netlink.h'):
            p = os.path.join(VENDORED, fn)
            if not os.path.exists(p):
                raise AnalysisError('vendored UAPI header %s is missing' % p)
            with open(p) as f:
                t = f.read()
            self.texts[fn] = t
            self.digests[fn] = hashlib.sha256(t.encode()).hexdigest()
            sysp = os.path.join('/usr/include/linux', fn)
            if os.path.exists(sysp):
                with open(sysp) as f:
                    st = f.read()
                if hashlib.sha256(st.encode()).hexdigest() != self.digests[fn]:
                    self.notes.append('system header %s differs from the vendored oracle copy (vendored copy is used)' % sysp)
        self.structs = {}
        self.consts = {}
        # xfrm_address_t: union of __be32 a4, __be32 a6[4], struct in6_addr -> 16 octets, 4-aligned, network order
        self.structs['xfrm_address_t'] = CStruct('xfrm_address_t', [CField('a6', 16, 4, 'B', 0, count=4)], 16, 4)
        for fn, t in self.texts.items():
            clean = self._strip(t)
            self._parse_defines(t)
            self._parse_enums(clean)
            self._parse_structs(clean)

    @staticmethod
    def _strip(t):
        t = re.sub(r'/\*.*?\*/', ' ', t, flags=re.S)
        t = re.sub(r'//[^\n]*', ' ', t)
        # drop preprocessor lines (incl. #define inside struct bodies)
        t = '\n'.join(l for l in t.split('\n') if not l.lstrip().startswith('#'))
        return t

    def _parse_defines(self, t):
        t = re.sub(r'/\*.*?\*/', ' ', t, flags=re.S)
        for m in re.finditer(r'^[ \t]*#[ \t]*define[ \t]+(\w+)[ \t]+(.+?)[ \t]*$', t, flags=re.M):
            name, val = m.group(1), m.group(2).strip()
            v = self._int(val)
            if v is not None and name not in self.consts:
                self.consts[name] = v

    def _int(self, val):
        val = val.strip()
        m = re.match(r'^\(?\s*(0[xX][0-9a-fA-F]+|\d+)[uUlL]*\s*\)?$', val)
        if m:
            return int(m.group(1), 0)
        m = re.match(r'^\(?\s*1\s*<<\s*(\d+)\s*\)?$', val)
        if m:
            return 1 << int(m.group(1))
        if re.match(r'^\w+$', val) and val in self.consts:
            return self.consts[val]
        return None

    def _parse_enums(self, t):
        for m in re.finditer(r'\benum\b\s*(\w*)\s*\{(.*?)\}', t, flags=re.S):
            cur = -1
            for item in m.group(2).split(','):
                item = item.strip()
                if not item:
                    continue
                if '=' in item:
                    name, val = [x.strip() for x in item.split('=', 1)]
                    v = self._int(val)
                    if v is None:
                        # expression we do not evaluate (e.g. __XFRM_MSG_MAX - 1): stop tracking implicit values
                        cur = None
                        continue
                    cur = v
                else:
                    name = item
                    if cur is None:
                        continue
                    cur += 1
                if re.match(r'^\w+$', name) and cur is not None:
                    self.consts.setdefault(name, cur)

    def _parse_structs(self, t):
        pending = []
        for m in re.finditer(r'\bstruct\s+(\w+)\s*\{([^{}]*)\}\s*;', t, flags=re.S):
            pending.append((m.group(1), m.group(2)))
        progress = True
        while pending and progress:
            progress = False
            rest = []
            for name, body in pending:
                try:
                    self.structs[name] = self._layout(name, body)
                    progress = True
                except KeyError:
                    rest.append((name, body))
            pending = rest
        self.unparsed = [n for n, _ in pending]

    def _layout(self, name, body):
        fields = []
        off = 0
        maxal = 1
        for decl in body.split(';'):
            decl = ' '.join(decl.split())
            if not decl:
                continue
            m = re.match(r'^(struct\s+\w+|unsigned\s+\w+|\w+)\s+(\w+)\s*(\[\s*(\w*)\s*\])?$', decl)
            if not m:
                raise AnalysisError('UAPI reader: cannot parse declaration `%s` in struct %s' % (decl, name))
            ty, fname, arr, cnt = m.group(1), m.group(2), m.group(3), m.group(4)
            ty = ' '.join(ty.split())
            st = None
            if ty.startswith('struct '):
                sn = ty.split()[1]
                if sn == 'in6_addr':
                    size, al, order = 16, 4, 'B'
                else:
                    st = self.structs[sn]      # KeyError -> retry later
                    size, al, order = st.size, st.align, 'S'
            elif ty in self.structs:
                st = self.structs[ty]
                size, al, order = st.size, st.align, 'S'
            elif ty in CTYPES_C:
                size, al, order = CTYPES_C[ty]
            else:
                raise KeyError(ty)
            count = None
            if arr is not None:
                if cnt == '':
                    count = 0
                else:
                    count = int(cnt) if cnt.isdigit() else self.consts.get(cnt)
                    if count is None:
                        raise AnalysisError('UAPI reader: unknown array bound %s in struct %s' % (cnt, name))
                size = size * count
            off = (off + al - 1) // al * al
            fields.append(CField(fname, size, al, order, off, count, st, C_SIGNED.get(ty) if st is None else None))
            off += size
            maxal = max(maxal, al)
        total = (off + maxal - 1) // maxal * maxal
        return CStruct(name, fields, total, maxal)


# ------------------------------------------------------------------------------- ctypes side
PY_SCALARS = {'c_ubyte': (1, 1, '-'), 'c_byte': (1, 1, '-'), 'c_char': (1, 1, '-'), 'c_uint8': (1, 1, '-'),
              'c_uint16': (2, 2, 'N'), 'c_int16': (2, 2, 'N'), 'c_ushort': (2, 2, 'N'),
              'c_uint32': (4, 4, 'N'), 'c_int32': (4, 4, 'N'), 'c_int': (4, 4, 'N'), 'c_uint': (4, 4, 'N'),
              'c_uint64': (8, 8, 'N'), 'c_int64': (8, 8, 'N')}


def py_layout(prog, cls, _depth=0):
    """CStruct-like layout of a ctypes Structure subclass of the repository"""
    if _depth > 6:
        raise AnalysisError('ctypes layout: recursion in %s' % cls.qual)
    fv = cls.lookup_attr('_fields_')
    if not isinstance(fv, (ast.Tuple, ast.List)):
        raise AnalysisError('ctypes layout: %s has no literal _fields_' % cls.qual)
    if cls.lookup_attr('_pack_') is not None:
        raise AnalysisError('ctypes layout: %s uses _pack_' % cls.qual)
    big = any('BigEndianStructure' in b for b in cls.all_ext_bases())
    fields = []
    off = 0
    maxal = 1
    for el in fv.elts:
        if not (isinstance(el, ast.Tuple) and len(el.elts) == 2 and isinstance(el.elts[0], ast.Constant)):
            raise AnalysisError('ctypes layout: unsupported _fields_ entry %s in %s' % (src(el), cls.qual))
        fname, te = el.elts[0].value, el.elts[1]
        size, al, order, count, st = _py_type(prog, cls, te, big, _depth)
        off = (off + al - 1) // al * al
        base = te
        while isinstance(base, ast.BinOp):
            base = base.left
        while isinstance(base, ast.Attribute) and base.attr in ('__ctype_be__', '__ctype_le__'):
            base = base.value
        fields.append(CField(fname, size, al, order, off, count, st, PY_SIGNED.get(base.id) if isinstance(base, ast.Name) else None))
        off += size
        maxal = max(maxal, al)
    total = (off + maxal - 1) // maxal * maxal
    return CStruct(cls.name, fields, total, maxal)


def _py_type(prog, cls, te, big, depth):
    if isinstance(te, ast.BinOp) and isinstance(te.op, ast.Mult):
        size, al, order, _, st = _py_type(prog, cls, te.left, big, depth)
        n = prog.const_eval(te.right, cls.module, cls)
        return size * n, al, order, n, st
    if isinstance(te, ast.Attribute) and te.attr in ('__ctype_be__', '__ctype_le__'):
        size, al, order, c, st = _py_type(prog, cls, te.value, big, depth)
        return size, al, ('B' if te.attr == '__ctype_be__' else 'N') if order != '-' else '-', c, st
    if isinstance(te, ast.Name) and te.id in PY_SCALARS:
        size, al, order = PY_SCALARS[te.id]
        if big and order == 'N':
            order = 'B'
        return size, al, order, None, None
    k = prog.resolve_class_expr(te, cls.module, cls)
    if k is not None:
        st = py_layout(prog, k, depth + 1)
        return st.size, st.align, 'S', None, st
    raise AnalysisError('ctypes layout: unknown field type %s in %s' % (src(te), cls.qual))
