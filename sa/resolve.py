"""Callee resolution (DESIGN 2.2): repository-specific receiver typing + name-based
class-hierarchy fallback.  Every call expression is classified as
  repo   - one or more repository functions (union when the receiver is ambiguous)
  ctor   - construction of a repository class (its __init__ when it has one)
  enum   - construction of a repository Enum class
  lib    - a library / builtin callable named by a dotted string
  dyn    - call through a local callable whose targets are enumerated (dict dispatch)
  unknown
"""
import ast

from .model import AnalysisError, FuncInfo, attr_chain, src, walk_no_nested

BUILTIN_FUNCS = {'len', 'bool', 'int', 'str', 'bytes', 'bytearray', 'list', 'set', 'dict', 'tuple', 'range',
                 'next', 'reversed', 'hash', 'sum', 'type', 'isinstance', 'hasattr', 'getattr', 'setattr',
                 'min', 'max', 'print', 'open', 'super', 'float', 'sorted', 'any', 'all', 'enumerate', 'zip',
                 'repr', 'iter', 'abs', 'id', 'issubclass', 'frozenset', 'map', 'filter', 'hex', 'ord', 'chr',
                 'divmod', 'round', 'format', 'callable', 'vars', 'memoryview', 'object', 'property',
                 'classmethod', 'staticmethod'}

BUILTIN_METHODS = {'hex', 'append', 'get', 'items', 'values', 'keys', 'format', 'join', 'encode', 'decode', 'pop',
                   'insert', 'remove', 'clear', 'update', 'digest', 'hexdigest', 'startswith', 'endswith',
                   'split', 'strip', 'replace', 'extend', 'index', 'count', 'copy', 'setdefault', 'lower',
                   'upper', 'add', 'discard', 'sort', 'reverse', 'to_bytes', 'from_bytes', 'supernet',
                   '_replace', '_asdict', 'fromhex', 'ljust', 'rjust', 'zfill', 'find', 'union', 'intersection',
                   'issubset', 'issuperset', 'rstrip', 'lstrip', 'isdigit', 'title', 'subnets', 'hosts',
                   'bit_length', '__new__', 'with_traceback', 'popitem', 'difference', 'partition', 'splitlines',
                   'close', 'send', 'recv', 'sendto', 'recvfrom', 'bind', 'listen', 'accept', 'sendall',
                   'setsockopt', 'fileno', 'connect', 'settimeout', 'setblocking'}

# names (parameters / locals) whose type cannot be inferred from an assignment; one
# reason per line (Engler-style: inferred from use, confirmed by reading, frozen)
NAME_HINTS = {
    'message': 'message.Message',            # IkeSa handlers / log_message take parsed Messages
    'request': 'message.Message',            # request handlers
    'response': 'message.Message',           # response handlers
    'header': 'message.Message',             # dispatch_message: Message.parse(header_only)
    'crypto': 'crypto.Crypto',               # Message.parse / PayloadSK.decrypt / generate
    'payload_id': 'message.PayloadID',       # _generate_auth_payload / _verify_auth_payload
    'payload_auth': 'message.PayloadAUTH',   # _verify_auth_payload
    'payload_tsi': 'message.PayloadTS',      # _get_ipsec_configuration
    'payload_tsr': 'message.PayloadTS',
    'peer_payload_sa': 'message.PayloadSA',  # _select_best_sa_proposal
    'my_proposal': 'message.Proposal',
    'ike_proposal': 'message.Proposal',
    'child_proposal': 'message.Proposal',
    'peer_proposal': 'message.Proposal',
    'transform': 'message.Transform',        # Prf/Cipher/Integrity constructors
    'ike_sa': 'ikesa.IkeSa',                 # Xfrm.create_child_sa/delete_child_sa, controller
    'ikesa': 'ikesa.IkeSa',                  # controller loops
    'cipher': 'crypto.Cipher',
    'integrity': 'crypto.Integrity',
    'notification': 'message.PayloadNOTIFY',
    'tsi': 'message.TrafficSelector',        # loop variables over PayloadTS.traffic_selectors
    'tsr': 'message.TrafficSelector',
    'chosen_tsi': 'message.TrafficSelector',
    'chosen_tsr': 'message.TrafficSelector',
    'delete_payload': 'message.PayloadDELETE',
    'payload_sk': 'message.PayloadSK',        # Message.parse: payloads.pop() under the SK-type guard
}

# attribute name -> class, for receivers reached through namedtuples / untyped objects
ATTR_HINTS = {
    'cipher': 'crypto.Cipher',               # Crypto.cipher
    'integrity': 'crypto.Integrity',         # Crypto.integrity
    'prf': 'crypto.Prf',                     # Crypto.prf (note: Prf.prf is a method; handled by call position)
    'my_crypto': 'crypto.Crypto',
    'peer_crypto': 'crypto.Crypto',
    'crypto': 'crypto.Crypto',               # Message.crypto
    'new_ike_sa': 'ikesa.IkeSa',
    'proposal': 'message.Proposal',          # ChildSa.proposal, IkeConfiguration.proposal, IpsecConfiguration.proposal
    'original_proposal': 'message.Proposal',
    'chosen_proposal': 'message.Proposal',
    'my_ts': 'message.TrafficSelector',
    'peer_ts': 'message.TrafficSelector',
    'pubkey': 'crypto.RsaPublicKey',
    'privkey': 'crypto.RsaPrivateKey',
    'request': 'message.Message',            # IkeSa.request
}

# names bound to ipaddress network/address objects (parameters fed from ip_network()/get_network())
LIBOBJ_NAME_HINTS = {
    'subnet': 'ipaddress.network',          # TrafficSelector.from_network(subnet, ...)
    'network': 'ipaddress.network',         # TrafficSelector.get_network
    'src_selector': 'ipaddress.network',    # Xfrm.create_sa / create_policy
    'dst_selector': 'ipaddress.network',
    'ip_addr': 'ipaddress.address',         # XfrmAddress.from_ipaddr
}

LIST_ATTR_HINTS = {
    'proposals': 'message.Proposal',          # PayloadSA.proposals
    'traffic_selectors': 'message.TrafficSelector',   # PayloadTS.traffic_selectors
    'transforms': 'message.Transform',        # Proposal.transforms
    'ike_sas': 'ikesa.IkeSa',                 # IkeSaController.ike_sas
}

# library methods that return library objects (receiver stays a library object)
LIBOBJ_METHODS = {'method.accept', 'method.public_key', 'method.public_numbers', 'method.parameters',
                  'method.generate_private_key', 'method.decryptor', 'method.encryptor'}

LIB_MODULES = {'logging', 'os', 'time', 'socket', 'json', 'random', 'struct', 'traceback', 'sys', 'hashlib',
               'signal', 'argparse', 'yaml', 'netifaces', 'ipaddress', 'hmac', 'ctypes', 'select', 'enum',
               'collections'}


class Res:
    __slots__ = ('kind', 'targets', 'lib', 'cls', 'note')

    def __init__(self, kind, targets=(), lib=None, cls=None, note=''):
        self.kind = kind
        self.targets = list(targets)
        self.lib = lib
        self.cls = cls
        self.note = note

    def __repr__(self):
        return '<Res %s %s %s>' % (self.kind, [t.qual for t in self.targets], self.lib or '')


class Resolver:
    def __init__(self, prog):
        self.prog = prog
        self._local_types = {}
        self._ret_types = {}
        self._attr_types = None
        self._in_progress = set()
        self._register_lambda_methods()
        self.stats = {'repo': 0, 'ctor': 0, 'enum': 0, 'lib': 0, 'dyn': 0, 'unknown': 0}

    # ------------------------------------------------------------------ lambdas as methods
    def _register_lambda_methods(self):
        """`ChildSa.to_dict = lambda x: ...` at module level becomes a pseudo function
        ikesa.ChildSa.to_dict so that name-based resolution sees it."""
        p = self.prog
        for m in p.modules.values():
            for name, val in list(m.consts.items()):
                if '.' in name and isinstance(val, ast.Lambda):
                    fn = ast.FunctionDef(name=name.split('.')[-1], args=val.args,
                                         body=[ast.Return(value=val.body, lineno=val.lineno, col_offset=0)],
                                         decorator_list=[], returns=None, type_comment=None, type_params=[],
                                         lineno=val.lineno, col_offset=0)
                    ast.fix_missing_locations(fn)
                    qual = m.name + '.' + name
                    fi = FuncInfo(m, None, fn, qual)
                    fi.pseudo_method = True
                    p.functions[qual] = fi

    # ------------------------------------------------------------------ typing
    def _cls(self, qual):
        return self.prog.classes.get(qual)

    def attr_types(self):
        """(class qual, attr) -> set of type tags, from `self.attr = expr` in methods."""
        if self._attr_types is not None:
            return self._attr_types
        self._attr_types = {}
        for fi in self.prog.all_functions():
            if fi.cls is None or fi.self_name is None or fi.is_classmethod:
                continue
            for n in walk_no_nested(fi.node):
                if isinstance(n, ast.Assign):
                    for t in n.targets:
                        if (isinstance(t, ast.Attribute) and isinstance(t.value, ast.Name)
                                and t.value.id == fi.self_name):
                            key = (fi.cls.qual, t.attr)
                            self._attr_types.setdefault(key, []).append((n.value, fi))
        return self._attr_types

    def attr_type(self, cls, attr, depth=0):
        out = set()
        if depth > 4:
            return out
        for c in cls.mro():
            for val, fi in self.attr_types().get((c.qual, attr), []):
                key = ('attr', c.qual, attr, id(val))
                if key in self._in_progress:
                    continue
                self._in_progress.add(key)
                try:
                    out |= self.expr_type(val, fi, depth + 1)
                finally:
                    self._in_progress.discard(key)
        return out

    def local_defs(self, fi):
        """name -> list of value expr (or ('elem', iterable expr) / ('unpack', expr, idx))."""
        if fi.qual in self._local_types:
            return self._local_types[fi.qual]
        defs = {}

        def add(t, v):
            if isinstance(t, ast.Name):
                defs.setdefault(t.id, []).append(v)
            elif isinstance(t, (ast.Tuple, ast.List)) and not isinstance(v, tuple):
                for i, e in enumerate(t.elts):
                    if isinstance(e, ast.Starred):
                        continue
                    if isinstance(v, (ast.Tuple, ast.List)) and len(v.elts) == len(t.elts):
                        add(e, v.elts[i])
                    else:
                        add(e, ('unpack', v, i))
        for n in walk_no_nested(fi.node):
            if isinstance(n, ast.Assign):
                for t in n.targets:
                    add(t, n.value)
            elif isinstance(n, ast.AnnAssign) and n.value is not None:
                add(n.target, n.value)
            elif isinstance(n, (ast.For, ast.comprehension)):
                it = n.iter
                if isinstance(it, ast.Call) and isinstance(it.func, ast.Name) and it.func.id == 'enumerate' and it.args \
                        and isinstance(n.target, (ast.Tuple, ast.List)) and len(n.target.elts) == 2:
                    add(n.target.elts[0], ast.Constant(value=0))
                    add(n.target.elts[1], ('elem', it.args[0]))
                else:
                    add(n.target, ('elem', n.iter))
            elif isinstance(n, ast.ExceptHandler) and n.name:
                defs.setdefault(n.name, []).append(('exc', n.type))
            elif isinstance(n, ast.With):
                for it in n.items:
                    if it.optional_vars is not None:
                        add(it.optional_vars, it.context_expr)
        self._local_types[fi.qual] = defs
        return defs

    def expr_type(self, e, fi, depth=0):
        """set of tags: ClassInfo (instance), ('cls', ClassInfo), 'bytes','str','int','list',
        'dict','tuple','bool','none', ('mod', name), ('listof', frozenset(tags))"""
        p = self.prog
        out = set()
        if depth > 6 or e is None:
            return out
        if isinstance(e, tuple):
            if e[0] == 'elem':
                if isinstance(e[1], (ast.Tuple, ast.List)) and not any(isinstance(x, ast.Starred) for x in e[1].elts):
                    # an element of a display is one of the displayed values
                    for x in e[1].elts:
                        out |= self.expr_type(x, fi, depth + 1)
                    return out
                for t in self.expr_type(e[1], fi, depth + 1):
                    if isinstance(t, tuple) and t[0] == 'listof':
                        out |= set(t[1])
                    elif isinstance(t, tuple) and t[0] == 'libobj':
                        out.add(t)
                return out
            if e[0] == 'unpack':
                for t in self.expr_type(e[1], fi, depth + 1):
                    if isinstance(t, tuple) and t[0] == 'tupleof' and e[2] < len(t[1]):
                        out |= set(t[1][e[2]])
                    elif isinstance(t, tuple) and t[0] == 'libobj':
                        out.add(t)
                return out
            return out
        if isinstance(e, ast.Constant):
            v = e.value
            return {('none' if v is None else 'bool' if isinstance(v, bool) else 'int' if isinstance(v, int)
                     else 'str' if isinstance(v, str) else 'bytes' if isinstance(v, bytes) else 'float')}
        if isinstance(e, ast.JoinedStr):
            return {'str'}
        if isinstance(e, (ast.List, ast.ListComp)):
            if isinstance(e, ast.List):
                el = set()
                for x in e.elts:
                    el |= self.expr_type(x, fi, depth + 1)
                return {'list', ('listof', frozenset(el))}
            return {'list'}
        if isinstance(e, (ast.Dict, ast.DictComp)):
            return {'dict'}
        if isinstance(e, ast.Tuple):
            return {'tuple', ('tupleof', tuple(frozenset(self.expr_type(x, fi, depth + 1)) for x in e.elts))}
        if isinstance(e, ast.IfExp):
            return self.expr_type(e.body, fi, depth + 1) | self.expr_type(e.orelse, fi, depth + 1)
        if isinstance(e, ast.BoolOp):
            for v in e.values:
                out |= self.expr_type(v, fi, depth + 1)
            return out
        if isinstance(e, ast.BinOp):
            l = self.expr_type(e.left, fi, depth + 1)
            r = self.expr_type(e.right, fi, depth + 1)
            for t in ('bytes', 'str', 'int', 'list'):
                if t in l or t in r:
                    out.add(t)
            return out
        if isinstance(e, ast.Name):
            if fi is not None and e.id == fi.self_name and fi.cls is not None:
                return {('cls', fi.cls)} if fi.is_classmethod else {fi.cls}
            if fi is not None:
                defs = self.local_defs(fi)
                if e.id in defs:
                    key = ('loc', fi.qual, e.id)
                    if key not in self._in_progress:
                        self._in_progress.add(key)
                        try:
                            for v in defs[e.id]:
                                out |= self.expr_type(v, fi, depth + 1)
                        finally:
                            self._in_progress.discard(key)
                    if out:
                        return out
                if e.id == 'other' and fi.cls is not None:
                    return {fi.cls}     # __eq__/is_subset/intersection compare like with like
            c = p.resolve_class_expr(e, fi.module if fi else None, fi.cls if fi else None) if fi else None
            if c is not None:
                return {('cls', c)}
            if fi is not None:
                imp = fi.module.imports.get(e.id)
                if imp and imp[0] == 'module':
                    return {('mod', imp[1])}
                if imp and imp[0] == 'from' and imp[1] not in p.modules:
                    return {('mod', imp[1] + '.' + imp[2])}
            if e.id in NAME_HINTS and self._cls(NAME_HINTS[e.id]):
                return {self._cls(NAME_HINTS[e.id])}
            if e.id in LIBOBJ_NAME_HINTS:
                return {('libobj', LIBOBJ_NAME_HINTS[e.id])}
            return out
        if isinstance(e, ast.Attribute):
            c = p.resolve_class_expr(e, fi.module, fi.cls) if fi is not None and attr_chain(e) else None
            if c is not None:
                return {('cls', c)}
            base = self.expr_type(e.value, fi, depth + 1)
            for t in base:
                k = t[1] if isinstance(t, tuple) and t[0] == 'cls' else t
                if hasattr(k, 'mro'):
                    if e.attr in k.nested:
                        out.add(('cls', k.nested[e.attr]))
                    m = k.lookup(e.attr)
                    if m is not None and m.is_property:
                        out |= self.return_type(m, depth + 1)
                    out |= self.attr_type(k, e.attr, depth + 1)
                    cav = k.lookup_attr(e.attr)
                    if cav is not None and not out:
                        out |= self.expr_type(cav, None, depth + 1) & {'dict', 'list', 'tuple', 'int', 'str', 'bytes'}
                elif isinstance(t, tuple) and t[0] == 'libobj':
                    out.add(t)
            if not out and e.attr in ATTR_HINTS and self._cls(ATTR_HINTS[e.attr]):
                out.add(self._cls(ATTR_HINTS[e.attr]))
            if not out and e.attr in LIST_ATTR_HINTS and self._cls(LIST_ATTR_HINTS[e.attr]):
                out |= {'list', ('listof', frozenset([self._cls(LIST_ATTR_HINTS[e.attr])]))}
            return out
        if isinstance(e, ast.Call) and isinstance(e.func, ast.Attribute) and e.func.attr == 'get' and 1 <= len(e.args) <= 2 and not e.keywords:
            # TABLE.get(key[, default]) of a literal table of classes: one of its classes (or the default)
            vals = self._dict_values(e.func.value, fi)
            if vals:
                out = {('cls', k) for k in vals}
                out |= self.expr_type(e.args[1], fi, depth + 1) if len(e.args) == 2 else {'none'}
                return out
        if isinstance(e, ast.Call):
            r = self.resolve_call(e, fi, count=False)
            if r.kind in ('ctor', 'enum'):
                return {r.cls}
            if r.kind == 'repo':
                for t in r.targets:
                    out |= self.return_type(t, depth + 1)
                return out
            if r.kind == 'lib':
                if r.lib in ('os.urandom', 'method.digest', 'builtin.bytes', 'struct.pack', 'method.encode',
                             'builtin.bytearray', 'method.update', 'method.finalize', 'method.exchange',
                             'method.sign'):
                    return {'bytes'}
                if r.lib in ('builtin.len', 'builtin.int', 'time.time', 'builtin.sum'):
                    return {'int'}
                if r.lib in ('builtin.str', 'method.hex', 'method.format', 'method.join', 'method.decode',
                             'json.dumps'):
                    return {'str'}
                if r.lib.startswith('namedtuple.'):
                    return {('nt', r.lib.split('.', 1)[1])}
                if r.lib.startswith('builtin.') or r.lib.startswith('method.') and r.lib not in LIBOBJ_METHODS:
                    return set()
                return {('libobj', r.lib)}
            return out
        if isinstance(e, ast.Subscript):
            if isinstance(e.slice, ast.Slice):
                return {t for t in self.expr_type(e.value, fi, depth + 1) if t in ('bytes', 'list', 'str')}
            vals = self._dict_values(e.value, fi)
            if vals:
                return {('cls', k) for k in vals}
            for t in self.expr_type(e.value, fi, depth + 1):
                if isinstance(t, tuple) and t[0] == 'listof':
                    out |= set(t[1])
                elif isinstance(t, tuple) and t[0] == 'libobj':
                    out.add(t)
            return out
        return out

    def return_type(self, fi, depth=0):
        if fi.qual in self._ret_types:
            return self._ret_types[fi.qual]
        key = ('ret', fi.qual)
        if key in self._in_progress or depth > 6:
            return set()
        self._in_progress.add(key)
        out = set()
        try:
            for n in walk_no_nested(fi.node):
                if isinstance(n, ast.Return) and n.value is not None:
                    v = n.value
                    if (isinstance(v, ast.Call) and isinstance(v.func, ast.Name) and fi.is_classmethod
                            and v.func.id == fi.self_name):
                        out.add(fi.cls)
                    else:
                        out |= self.expr_type(v, fi, depth + 1)
        finally:
            self._in_progress.discard(key)
        if depth == 0:
            self._ret_types[fi.qual] = out
        return out

    # ------------------------------------------------------------------ calls
    def _count(self, r, count):
        if count:
            self.stats[r.kind] = self.stats.get(r.kind, 0) + 1
        return r

    def _class_call(self, c):
        p = self.prog
        if p.is_enum(c):
            return Res('enum', cls=c, note='safe' if p.is_safe_enum(c) else 'strict')
        init = c.lookup('__init__')
        return Res('ctor', [init] if init else [], cls=c)

    def subclasses(self, c):
        return [k for k in self.prog.classes.values() if c in k.mro()]

    def resolve_call(self, call, fi, count=True):
        p = self.prog
        f = call.func
        mod = fi.module if fi is not None else None
        # ---- Name(...)
        if isinstance(f, ast.Name):
            name = f.id
            if fi is not None and name == fi.self_name and fi.is_classmethod:
                # cls(...) : enclosing class or any subclass
                ks = self.subclasses(fi.cls)
                inits = []
                for k in ks:
                    i = k.lookup('__init__')
                    if i and i not in inits:
                        inits.append(i)
                return self._count(Res('ctor', inits, cls=fi.cls), count)
            if fi is not None:
                defs = self.local_defs(fi)
                if name in defs:
                    # local callable: dictionary dispatch / lambda
                    targets = self._local_callable_targets(name, fi)
                    if targets is not None:
                        return self._count(Res('dyn', targets, note=name), count)
            c = p.resolve_class_expr(f, mod, fi.cls if fi else None) if mod else None
            if c is not None:
                return self._count(self._class_call(c), count)
            fn = p.resolve_module_func(f, mod) if mod else None
            if fn is not None:
                return self._count(Res('repo', [fn]), count)
            nt = self._namedtuple_name(name, mod)
            if nt:
                return self._count(Res('lib', lib='namedtuple.' + nt), count)
            if fi is not None and any(isinstance(n, ast.ClassDef) and n.name == name
                                      for n in ast.walk(fi.node)):
                return self._count(Res('lib', lib='ctypes.Structure'), count)
            imp = mod.imports.get(name) if mod else None
            if imp is not None:
                lib = (imp[1] + '.' + imp[2]) if imp[0] == 'from' else imp[1]
                return self._count(Res('lib', lib=lib), count)
            if name in BUILTIN_FUNCS:
                return self._count(Res('lib', lib='builtin.' + name), count)
            return self._count(Res('unknown', note=name), count)
        # ---- X.m(...)
        if isinstance(f, ast.Attribute):
            m = f.attr
            recv = f.value
            # super().m
            if isinstance(recv, ast.Call) and isinstance(recv.func, ast.Name) and recv.func.id == 'super':
                if fi is not None and fi.cls is not None:
                    for k in fi.cls.mro()[1:]:
                        if m in k.methods:
                            return self._count(Res('repo', [k.methods[m]]), count)
                    return self._count(Res('lib', lib='object.' + m), count)
            # class / module receivers
            c = p.resolve_class_expr(f, mod, fi.cls if fi else None) if attr_chain(f) and mod else None
            if c is not None:
                return self._count(self._class_call(c), count)
            rt = self.expr_type(recv, fi) if fi is not None else set()
            targets = []
            libs = []
            for t in rt:
                if isinstance(t, tuple) and t[0] == 'mod':
                    libs.append(t[1] + '.' + m)
                    continue
                k = t[1] if isinstance(t, tuple) and t[0] == 'cls' else t
                if hasattr(k, 'mro'):
                    if m in k.nested or any(m in b.nested for b in k.mro()):
                        nc = next(b.nested[m] for b in k.mro() if m in b.nested)
                        return self._count(self._class_call(nc), count)
                    meth = k.lookup(m)
                    if meth is not None:
                        if meth not in targets:
                            targets.append(meth)
                        # subclasses overriding m (receiver may be any subclass instance)
                        for s in self.subclasses(k):
                            if m in s.methods and s.methods[m] not in targets:
                                targets.append(s.methods[m])
                    else:
                        # attribute holding a callable (self.hasher(), self._algorithm(key))
                        av = k.lookup_attr(m)
                        libs.append('attrcall.' + k.name + '.' + m)
                elif isinstance(t, tuple) and t[0] == 'libobj':
                    libs.append('method.' + m)
                elif isinstance(t, tuple) and t[0] == 'nt':
                    libs.append('method.' + m)
                elif isinstance(t, str) and m in BUILTIN_METHODS:
                    libs.append('method.' + m)
            if targets and not libs:
                return self._count(Res('repo', targets), count)
            if libs and not targets:
                return self._count(Res('lib', lib=sorted(set(libs))[0], note=','.join(sorted(set(libs)))), count)
            if targets and libs:
                return self._count(Res('repo', targets, lib=sorted(set(libs))[0]), count)
            # dictionary dispatch: D[k].m(...) where D is a class-level literal dict of classes
            if isinstance(recv, ast.Subscript):
                vals = self._dict_values(recv.value, fi)
                if vals:
                    ts = []
                    for k in vals:
                        mm = k.lookup(m)
                        if mm and mm not in ts:
                            ts.append(mm)
                    if ts:
                        return self._count(Res('repo', ts, note='dict-dispatch'), count)
            # name-based fallback (CHA by method name)
            cands = [t for t in p.methods_named(m)]
            cands += [t for t in p.functions.values() if getattr(t, 'pseudo_method', False) and t.name == m]
            if cands and m in BUILTIN_METHODS:
                return self._count(Res('repo', cands, lib='method.' + m, note='cha+builtin'), count)
            if cands:
                return self._count(Res('repo', cands, note='cha'), count)
            if m in BUILTIN_METHODS:
                return self._count(Res('lib', lib='method.' + m), count)
            ch = attr_chain(recv)
            if ch and mod and ch.split('.')[0] in mod.imports:
                imp = mod.imports[ch.split('.')[0]]
                base = imp[1] if imp[0] == 'module' else imp[1] + '.' + imp[2]
                return self._count(Res('lib', lib=base + '.' + m), count)
            return self._count(Res('lib', lib='method.' + m, note='uncatalogued-method'), count)
        # ---- (expr)(...)  e.g. self._transform_id_enums.get(type, self.EncrId)(id)
        if isinstance(f, ast.Call) and isinstance(f.func, ast.Attribute) and f.func.attr == 'get':
            vals = self._dict_values(f.func.value, fi)
            extra = []
            if len(f.args) > 1:
                for t in self.expr_type(f.args[1], fi):
                    if isinstance(t, tuple) and t[0] == 'cls':
                        extra.append(t[1])
            ks = list(vals or []) + extra
            if ks and all(p.is_enum(k) for k in ks):
                safe = all(p.is_safe_enum(k) for k in ks)
                return self._count(Res('enum', cls=ks[0], note='safe' if safe else 'strict'), count)
        if isinstance(f, ast.Subscript):
            vals = self._dict_values(f.value, fi)
            if vals:
                r = [self._class_call(k) for k in vals]
                ts = []
                for x in r:
                    ts += x.targets
                return self._count(Res('ctor', ts, cls=vals[0], note='dict-dispatch'), count)
        if isinstance(f, ast.BinOp) and isinstance(f.op, ast.Mult):
            return self._count(Res('lib', lib='ctypes.array'), count)
        return self._count(Res('unknown', note=src(f)[:40]), count)

    def _namedtuple_name(self, name, mod):
        p = self.prog
        for _ in range(2):
            v = mod.consts.get(name) if mod else None
            if isinstance(v, ast.Call) and src(v.func).endswith('namedtuple'):
                return name
            imp = mod.imports.get(name) if mod else None
            if imp and imp[0] == 'from' and imp[1] in p.modules:
                mod = p.modules[imp[1]]
                name = imp[2]
            else:
                return None
        return None

    def _dict_values(self, expr, fi):
        """classes that are values of the literal dict named by `expr` (cls.type_2_payload,
        self._transform_id_enums, cls.payload_types ...)."""
        p = self.prog
        if fi is None or fi.cls is None:
            return None
        if isinstance(expr, ast.Name) and expr.id != fi.self_name:
            # a local alias: `known_types = cls.attribute_types` ... `known_types[t]`
            defs = self.local_defs(fi).get(expr.id, [])
            if len(defs) == 1 and isinstance(defs[0], ast.Attribute):
                return self._dict_values(defs[0], fi)
            return None
        if isinstance(expr, ast.Attribute) and isinstance(expr.value, ast.Name) and expr.value.id == fi.self_name:
            v = fi.cls.lookup_attr(expr.attr)
            if isinstance(v, ast.Dict):
                out = []
                # the attribute as defined by the class, its bases and its subclasses (a classmethod of
                # NetlinkProtocol runs with cls = Xfrm), plus `X.update({...})` extensions in class bodies
                for k in [fi.cls] + [c for c in fi.cls.mro() if c is not fi.cls] + self.subclasses(fi.cls):
                    dv = k.attrs.get(expr.attr)
                    if isinstance(dv, ast.Dict):
                        for x in dv.values:
                            c = p.resolve_class_expr(x, k.module, k)
                            if c is None:
                                return None
                            if c not in out:
                                out.append(c)
                    for st in k.node.body:
                        if (isinstance(st, ast.Expr) and isinstance(st.value, ast.Call)
                                and isinstance(st.value.func, ast.Attribute) and st.value.func.attr == 'update'
                                and src(st.value.func.value).endswith(expr.attr) and st.value.args
                                and isinstance(st.value.args[0], ast.Dict)):
                            for x in st.value.args[0].values:
                                c = p.resolve_class_expr(x, k.module, k)
                                if c is not None and c not in out:
                                    out.append(c)
                return out
        return None

    def _local_callable_targets(self, name, fi):
        """Targets of a call through a local variable: `handler = _handler_dict[...]`,
        `handler, *args = x` (pending events), `ordinal = lambda ...`, `payload_class = ...`."""
        p = self.prog
        defs = self.local_defs(fi)[name]
        targets = []
        ok = False
        defs = list(defs)
        for v in list(defs):
            if isinstance(v, ast.IfExp):
                defs += [v.body, v.orelse]
        # handler = other_local: the definitions of that local (one step, no cycles)
        for v in list(defs):
            if isinstance(v, ast.Name) and v.id != name and v.id in self.local_defs(fi):
                defs += [w for w in self.local_defs(fi)[v.id] if not isinstance(w, ast.Name)]
        def lambda_targets(lam):
            # calling the lambda runs its body: what the body calls is what the call can reach
            for c in ast.walk(lam.body):
                if isinstance(c, ast.Call):
                    try:
                        r = self.resolve_call(c, fi, count=False)
                    except Exception:
                        continue
                    if r.kind in ('repo', 'dyn', 'ctor'):
                        for t_ in r.targets:
                            if t_ not in targets:
                                targets.append(t_)
        for v in defs:
            if isinstance(v, ast.Lambda):
                ok = True
                lambda_targets(v)
                continue
            # handler = self.process_x  (one of several branches of a dispatch chain)
            if isinstance(v, ast.Attribute) and isinstance(v.value, ast.Name) and v.value.id == fi.self_name and fi.cls is not None:
                mm = fi.cls.lookup(v.attr)
                if mm is not None:
                    if mm not in targets:
                        targets.append(mm)
                    ok = True
                continue
            if isinstance(v, ast.Call) and isinstance(v.func, ast.Attribute) and v.func.attr == 'get' and v.args:
                v = ast.Subscript(value=v.func.value, slice=v.args[0], ctx=ast.Load())      # d.get(k[, default]) looks d[k] up
            if isinstance(v, ast.Subscript):
                d = v.value
                # local literal dict of bound methods
                if isinstance(d, ast.Name) and d.id in self.local_defs(fi):
                    for dv in self.local_defs(fi)[d.id]:
                        if isinstance(dv, ast.Dict):
                            for x in dv.values:
                                if (isinstance(x, ast.Attribute) and isinstance(x.value, ast.Name)
                                        and x.value.id == fi.self_name and fi.cls is not None):
                                    mm = fi.cls.lookup(x.attr)
                                    if mm is not None:
                                        targets.append(mm)
                                        ok = True
                                elif isinstance(x, ast.Lambda):
                                    lambda_targets(x)
                                    ok = True
                vals = self._dict_values(d, fi)
                if vals:
                    return None   # class object: handled by attribute path
        if not ok and fi.cls is not None:
            # starred unpack of a pending event: the set of bound methods ever appended
            for n in walk_no_nested(fi.node):
                if isinstance(n, ast.Assign) and any(isinstance(t, (ast.Tuple, ast.List)) and any(
                        isinstance(e, ast.Name) and e.id == name for e in t.elts) and any(
                        isinstance(e, ast.Starred) for e in t.elts) for t in n.targets):
                    for g in fi.cls.methods.values():
                        for c in walk_no_nested(g.node):
                            if (isinstance(c, ast.Call) and isinstance(c.func, ast.Attribute)
                                    and c.func.attr == 'append' and src(c.func.value).endswith('pending_events')
                                    and c.args and isinstance(c.args[0], ast.Tuple) and c.args[0].elts):
                                h = c.args[0].elts[0]
                                if isinstance(h, ast.Attribute) and fi.cls.lookup(h.attr):
                                    mm = fi.cls.lookup(h.attr)
                                    if mm not in targets:
                                        targets.append(mm)
                                    ok = True
        return targets if ok else None

    # ------------------------------------------------------------------ helpers for rules
    def calls_to(self, fi, pred):
        """[(call, Res)] for calls in fi whose resolution satisfies pred(res)."""
        out = []
        for n in walk_no_nested(fi.node):
            if isinstance(n, ast.Call):
                r = self.resolve_call(n, fi, count=False)
                if pred(r):
                    out.append((n, r))
        return out

    def resolves_to(self, call, fi, qual):
        r = self.resolve_call(call, fi, count=False)
        return any(t.qual == qual for t in r.targets)

    def call_graph(self):
        g = {}
        for fi in self.prog.all_functions():
            s = set()
            for n in walk_no_nested(fi.node):
                if isinstance(n, ast.Call):
                    r = self.resolve_call(n, fi, count=False)
                    for t in r.targets:
                        s.add(t.qual)
            g[fi.qual] = s
        return g


def bind_args(call, target, is_ctor=False):
    """parameter name -> argument expr for a call to FuncInfo `target` (None when a
    parameter is left to its default).  *args/**kwargs are not used in the repo."""
    params = target.call_params()
    out = {}
    for i, a in enumerate(call.args):
        if isinstance(a, ast.Starred):
            raise AnalysisError('bind_args: starred argument')
        if i < len(params):
            out[params[i]] = a
    for kw in call.keywords:
        if kw.arg is None:
            raise AnalysisError('bind_args: **kwargs')
        out[kw.arg] = kw.value
    return out
