"""A11 finite-abstraction evaluation: the checker's own interpreter for small pure functions
(predicates / integer arithmetic) of the repository.  The function body is read from the
syntax tree and evaluated over an abstract environment chosen by the rule; nothing of the
repository is imported or executed.

Supported: If / Return / Assign to locals / Expr; Compare (== != < <= > >= is, is not, in,
not in over tuples), BoolOp, UnaryOp(not, -), BinOp(+ - * // % << >> & |), IfExp, Tuple,
Constant, Name (locals / environment), Attribute chains resolved through the environment
(`self.start_port`) or through Program.const_eval (`TrafficSelector.IpProtocol.ANY`), len().
Anything else raises AnalysisError (exit 2), never a silent pass.
"""
import ast

from .model import AnalysisError, attr_chain, src


class _Return(Exception):
    def __init__(self, value):
        self.value = value


class Interp:
    def __init__(self, prog, fi, env):
        self.prog, self.fi = prog, fi
        self.env = dict(env)

    def run(self):
        try:
            self.block(self.fi.node.body)
        except _Return as r:
            return r.value
        return None

    def block(self, stmts):
        for st in stmts:
            self.stmt(st)

    def stmt(self, st):
        if isinstance(st, ast.Return):
            raise _Return(self.ev(st.value) if st.value is not None else None)
        if isinstance(st, ast.If):
            self.block(st.body if self.ev(st.test) else st.orelse)
            return
        if isinstance(st, ast.Assign) and len(st.targets) == 1 and isinstance(st.targets[0], ast.Name):
            self.env[st.targets[0].id] = self.ev(st.value)
            return
        if isinstance(st, ast.AugAssign) and isinstance(st.target, ast.Name):
            cur = self.env[st.target.id]
            self.env[st.target.id] = self.binop(st.op, cur, self.ev(st.value))
            return
        if isinstance(st, ast.Expr) and isinstance(st.value, ast.Constant):
            return
        if isinstance(st, ast.Pass):
            return
        raise AnalysisError('finite evaluation: unsupported statement `%s` in %s' % (src(st)[:60], self.fi.qual))

    def binop(self, op, a, b):
        table = {ast.Add: lambda: a + b, ast.Sub: lambda: a - b, ast.Mult: lambda: a * b, ast.FloorDiv: lambda: a // b,
                 ast.Mod: lambda: a % b, ast.LShift: lambda: a << b, ast.RShift: lambda: a >> b,
                 ast.BitAnd: lambda: a & b, ast.BitOr: lambda: a | b}
        for k, f in table.items():
            if isinstance(op, k):
                return f()
        raise AnalysisError('finite evaluation: unsupported operator %s' % type(op).__name__)

    def ev(self, e):
        if isinstance(e, ast.Constant):
            return e.value
        if isinstance(e, ast.Name):
            if e.id in self.env:
                return self.env[e.id]
            raise AnalysisError('finite evaluation: unbound name %s in %s' % (e.id, self.fi.qual))
        if isinstance(e, ast.Attribute):
            ch = attr_chain(e)
            if ch is not None and ch in self.env:
                return self.env[ch]
            try:
                return self.prog.const_eval(e, self.fi.module, self.fi.cls)
            except AnalysisError:
                raise AnalysisError('finite evaluation: unbound attribute %s in %s' % (src(e), self.fi.qual))
        if isinstance(e, ast.Tuple):
            return tuple(self.ev(x) for x in e.elts)
        if isinstance(e, ast.UnaryOp):
            v = self.ev(e.operand)
            if isinstance(e.op, ast.Not):
                return not v
            if isinstance(e.op, ast.USub):
                return -v
        if isinstance(e, ast.BoolOp):
            if isinstance(e.op, ast.And):
                v = True
                for x in e.values:
                    v = self.ev(x)
                    if not v:
                        return v
                return v
            v = False
            for x in e.values:
                v = self.ev(x)
                if v:
                    return v
            return v
        if isinstance(e, ast.IfExp):
            return self.ev(e.body) if self.ev(e.test) else self.ev(e.orelse)
        if isinstance(e, ast.BinOp):
            return self.binop(e.op, self.ev(e.left), self.ev(e.right))
        if isinstance(e, ast.Compare):
            left = self.ev(e.left)
            for op, c in zip(e.ops, e.comparators):
                right = self.ev(c)
                ok = {ast.Eq: lambda: left == right, ast.NotEq: lambda: left != right, ast.Lt: lambda: left < right,
                      ast.LtE: lambda: left <= right, ast.Gt: lambda: left > right, ast.GtE: lambda: left >= right,
                      ast.Is: lambda: left is right or left == right, ast.IsNot: lambda: not (left is right or left == right),
                      ast.In: lambda: left in right, ast.NotIn: lambda: left not in right}.get(type(op))
                if ok is None:
                    raise AnalysisError('finite evaluation: unsupported comparison in %s' % self.fi.qual)
                if not ok():
                    return False
                left = right
            return True
        if isinstance(e, ast.Call) and isinstance(e.func, ast.Name) and e.func.id == 'len' and len(e.args) == 1:
            return len(self.ev(e.args[0]))
        if isinstance(e, ast.Call) and isinstance(e.func, ast.Name) and e.func.id in ('bool', 'int') and len(e.args) == 1 \
                and not e.keywords:
            v = self.ev(e.args[0])
            return bool(v) if e.func.id == 'bool' else int(v)
        if isinstance(e, ast.Subscript) and not isinstance(e.slice, ast.Slice):
            return self.ev(e.value)[self.ev(e.slice)]
        raise AnalysisError('finite evaluation: unsupported expression `%s` in %s' % (src(e)[:60], self.fi.qual))


def evaluate(prog, fi, env):
    return Interp(prog, fi, env).run()
