"""A2 loop-variant analysis (DESIGN 2.5/A2).

Every `while` loop in a given reach must match one of the recognised variant shapes;
anything else is reported as unproven.  Recognised shapes (enumerated from the repo):

 cursor      `while C < len(D)` / `while <anything>` with an integer cursor C that is
             increased on every back-edge path by a constant >= 1 or by a variable for
             which the path carries a fact `>= 1`; when the loop test does not bound C
             itself, every back-edge path must pass `unpack_from(fmt, D, C)` (which
             raises once C passes the end of D).
 shrink      `while len(D) > k`: every back-edge path does `D = D[n:]` with n >= 1.
 grow        `while len(R) < N`: every back-edge path does `R += <non-empty digest>`.
 supernet    `while X not in N: N = N.supernet()` (prefix length strictly decreases and
             supernet() raises at /0).
Facts come from explicit guards on the path (`if length < 4: raise`) and from
short-input summaries of callees (`f(data[a:b])` returned normally => b - a >= min_len(f)).
"""
import ast
import re

from .cfg import build_cfg
from .escape import const_format, struct_fields
from .model import AnalysisError, src, walk_no_nested


# ----------------------------------------------------------------- linear forms
def lin(expr, env):
    """expr -> {var: coef, 1: const} or None"""
    if isinstance(expr, ast.Constant) and isinstance(expr.value, int) and not isinstance(expr.value, bool):
        return {1: expr.value}
    if isinstance(expr, ast.Name):
        if expr.id in env and env[expr.id] is not None:
            return dict(env[expr.id])
        return {expr.id: 1}
    if isinstance(expr, ast.BinOp) and isinstance(expr.op, (ast.Add, ast.Sub)):
        a, b = lin(expr.left, env), lin(expr.right, env)
        if a is None or b is None:
            return None
        out = dict(a)
        sign = 1 if isinstance(expr.op, ast.Add) else -1
        for k, v in b.items():
            out[k] = out.get(k, 0) + sign * v
        return {k: v for k, v in out.items() if v != 0 or k == 1}
    if isinstance(expr, ast.BinOp) and isinstance(expr.op, ast.Mult):
        a, b = lin(expr.left, env), lin(expr.right, env)
        if a is not None and b is not None:
            if set(a) <= {1}:
                c = a.get(1, 0)
                return {k: v * c for k, v in b.items()}
            if set(b) <= {1}:
                c = b.get(1, 0)
                return {k: v * c for k, v in a.items()}
    if isinstance(expr, (ast.Attribute, ast.Call, ast.Subscript)):
        return {src(expr): 1}
    return None


def lin_sub(a, b):
    out = dict(a)
    for k, v in b.items():
        out[k] = out.get(k, 0) - v
    return {k: v for k, v in out.items() if v != 0}


def lin_const(a):
    """value when the form is a pure constant else None"""
    if a is None:
        return None
    if all(k == 1 for k in a):
        return a.get(1, 0)
    return None


def implies_ge(facts, form, bound=1):
    """do facts (list of (form, k) meaning form >= k) imply form >= bound?"""
    c = lin_const(form)
    if c is not None:
        return c >= bound
    for f, k in facts:
        d = lin_const(lin_sub(form, f))
        if d is not None and k + d >= bound:
            return True
    return False


# ----------------------------------------------------------------- summaries
class Loops:
    def __init__(self, prog, resolver, escape):
        self.prog = prog
        self.res = resolver
        self.esc = escape
        self._minlen = {}

    def data_param(self, fi):
        ps = fi.call_params()
        return ps[0] if ps else None

    def min_len(self, fi):
        """largest n such that every normal return of the parse function fi has passed a
        non-failing unpack_from(fmt, <data param>, const_off) with off+size >= n, or an
        explicit `len(data) < n -> raise` test."""
        if fi.qual in self._minlen:
            return self._minlen[fi.qual]
        self._minlen[fi.qual] = 0
        g = build_cfg(fi)
        self.esc.add_exception_edges(fi)
        dp = self.data_param(fi)
        best = 0
        if dp is None:
            return 0
        for n in g.nodes:
            need = 0
            for e in n.exprs():
                if e is None:
                    continue
                for x in walk_no_nested(e):
                    if isinstance(x, ast.Call):
                        r = self.res.resolve_call(x, fi, count=False)
                        if r.kind == 'lib' and r.lib == 'struct.unpack_from' and len(x.args) >= 2 \
                                and isinstance(x.args[1], ast.Name) and x.args[1].id == dp:
                            fmt = const_format(x.args[0])
                            off = 0
                            if len(x.args) > 2:
                                off = lin_const(lin(x.args[2], {}))
                            if fmt is not None and '{' not in fmt and off is not None:
                                need = max(need, off + struct_fields(fmt)[1])
                        # constructor with an explicit minimum (PayloadNONCE / PayloadVENDOR) is
                        # found through the callee's own min_len on the same data
                        for t in r.targets:
                            if t.qual != fi.qual and x.args and isinstance(x.args[0], ast.Name) \
                                    and x.args[0].id == dp and t.name in ('__init__',):
                                need = max(need, self.min_len_ctor(t))
            if need:
                # does every normal path to exit pass the normal continuation of n ?
                blocked = [(n.id, lab, m.id) for lab, m in n.succ if not isinstance(lab, tuple)]
                if g.exit.id not in g.reach([g.entry], blocked_edges=blocked):
                    # and the failing continuation never reaches the normal exit
                    ok = True
                    for lab, m in n.succ:
                        if isinstance(lab, tuple) and lab[1] == 'struct.error':
                            if g.exit.id in g.reach([m]):
                                ok = False
                    if ok:
                        best = max(best, need)
        self._minlen[fi.qual] = best
        return best

    def min_len_ctor(self, init):
        """__init__(self, data, ...) that raises when len(data) is below a constant."""
        g = build_cfg(init)
        ps = init.call_params()
        if not ps:
            return 0
        dp = ps[0]
        best = 0
        for n in g.nodes:
            if n.kind != 'cond':
                continue
            e = n.ast
            k = None
            if isinstance(e, ast.Compare) and len(e.ops) == 1 and src(e.left) == 'len(%s)' % dp:
                c = lin_const(lin(e.comparators[0], {}))
                if c is not None:
                    if isinstance(e.ops[0], ast.Lt):
                        k = c
                    elif isinstance(e.ops[0], ast.Eq) and c == 0:
                        k = 1
                    elif isinstance(e.ops[0], ast.LtE):
                        k = c + 1
            if k:
                # true edge must raise on every path, and every normal exit must pass the F edge
                t_succ = [m for lab, m in n.succ if lab == 'T']
                if all(g.exit.id not in g.reach([m], follow_exc=False) for m in t_succ):
                    blocked = [(n.id, 'F', m.id) for lab, m in n.succ if lab == 'F']
                    # the test may sit under `if data is not None:`; only count when it guards all exits
                    if g.exit.id not in g.reach([g.entry], blocked_edges=blocked, follow_exc=False):
                        best = max(best, k)
        return best

    # ----------------------------------------------------------------- facts from a path
    def unsigned_field(self, fi, name):
        """name is bound by tuple-unpacking an unpack_from whose format char is unsigned."""
        for v in self.res.local_defs(fi).get(name, []):
            if isinstance(v, tuple) and v[0] == 'unpack' and isinstance(v[1], ast.Call):
                fmt = const_format(v[1].args[0]) if v[1].args else None
                if fmt is None:
                    return False
                chars = []
                for cnt, ch in re.findall(r'(\d*)([xcbB?hHiIlLqQsp])', fmt.lstrip('@=<>!')):
                    if ch in 'sp':
                        chars.append(ch)
                    elif ch != 'x':
                        chars += [ch] * (int(cnt) if cnt else 1)
                if v[2] < len(chars) and chars[v[2]] in 'BHILQ':
                    continue
                return False
            else:
                return False
        return bool(self.res.local_defs(fi).get(name))

    def cond_fact(self, fi, expr, taken, env):
        """fact (form, k): form >= k implied by taking edge `taken` ('T'/'F') of cond expr"""
        out = []
        truth = taken == 'T'
        e = expr
        if isinstance(e, ast.Name):
            if truth and self.unsigned_field(fi, e.id):
                out.append(({e.id: 1}, 1))
            return out
        if isinstance(e, ast.Compare) and len(e.ops) == 1:
            l, r = lin(e.left, env), lin(e.comparators[0], env)
            if l is None or r is None:
                return out
            op = e.ops[0]
            # normalise to  d = l - r  (op) 0
            d = lin_sub(l, r)
            neg = {k: -v for k, v in d.items()}
            if isinstance(op, ast.Lt):      # l < r
                out.append((d, 0) if not truth else (neg, 1))        # F: l-r >= 0 ; T: r-l >= 1
            elif isinstance(op, ast.LtE):
                out.append((d, 1) if not truth else (neg, 0))
            elif isinstance(op, ast.Gt):
                out.append((d, 1) if truth else (neg, 0))
            elif isinstance(op, ast.GtE):
                out.append((d, 0) if truth else (neg, 1))
            elif isinstance(op, (ast.Eq, ast.NotEq)):
                nonzero = (isinstance(op, ast.Eq) and not truth) or (isinstance(op, ast.NotEq) and truth)
                # x != 0 with x unsigned  =>  x >= 1
                vars_ = [k for k in d if k != 1]
                if nonzero and len(vars_) == 1 and d.get(1, 0) == 0 and d[vars_[0]] in (1, -1) \
                        and isinstance(vars_[0], str) and self.unsigned_field(fi, vars_[0]):
                    out.append(({vars_[0]: 1}, 1))
                if not nonzero:
                    out.append((d, 0))
                    out.append((neg, 0))
            # split constants:  {length:1, 1:-4} >= 0  ->  ({length:1}, 4)
        res = []
        for f, k in out:
            c = f.get(1, 0)
            g = {a: b for a, b in f.items() if a != 1}
            res.append((g, k - c))
        return res

    def call_slice_facts(self, fi, node_expr, env):
        """f(data[A:B]) returned normally  =>  B - A >= min_len(f)"""
        out = []
        for x in walk_no_nested(node_expr):
            a0 = x.args[0] if isinstance(x, ast.Call) and x.args else None
            if isinstance(a0, ast.Name) and ('slice', a0.id) in env:
                a0 = env[('slice', a0.id)]          # body = data[a:b]; f(body)
            if isinstance(x, ast.Call) and x.args and isinstance(a0, ast.Subscript) \
                    and isinstance(a0.slice, ast.Slice):
                sl = a0.slice
                if sl.upper is None or sl.step is not None:
                    continue
                r = self.res.resolve_call(x, fi, count=False)
                if not r.targets:
                    continue
                ml = min(self.min_len(t) for t in r.targets)
                if ml <= 0:
                    continue
                a = lin(sl.lower, env) if sl.lower is not None else {1: 0}
                b = lin(sl.upper, env)
                if a is None or b is None:
                    continue
                d = lin_sub(b, a)
                c = d.get(1, 0)
                g = {k: v for k, v in d.items() if k != 1}
                out.append((g, ml - c))
        return out

    # ----------------------------------------------------------------- the loop rule
    def check_while(self, fi, join, loop):
        """Returns (ok, shape, problems[list of str])"""
        g = build_cfg(fi)
        self.esc.add_exception_edges(fi)
        test = loop.test
        body_src = src(loop)
        # ---- supernet idiom
        if (isinstance(test, ast.Compare) and isinstance(test.ops[0], ast.NotIn) and len(loop.body) == 1
                and isinstance(loop.body[0], ast.Assign) and isinstance(loop.body[0].value, ast.Call)
                and isinstance(loop.body[0].value.func, ast.Attribute)
                and loop.body[0].value.func.attr == 'supernet'
                and src(loop.body[0].targets[0]) == src(loop.body[0].value.func.value) == src(test.comparators[0])):
            return True, 'supernet', []
        back_paths = [p for p in g.paths(start=join, stop=lambda n: n is join) if p[-1][0] is join]
        if not back_paths:
            return True, 'no-back-edge', []
        # candidate cursors: names augmented / reassigned in the loop body
        shape, cursor, bound_by_test = None, None, False
        if isinstance(test, ast.Compare) and len(test.ops) == 1:
            l, r = test.left, test.comparators[0]
            stored_in_loop = {x.id for x in ast.walk(loop) if isinstance(x, ast.Name) and isinstance(x.ctx, (ast.Store, ast.Del))}
            if isinstance(test.ops[0], ast.Lt) and isinstance(l, ast.Name) and src(r).startswith('len('):
                shape, cursor, bound_by_test = 'cursor', l.id, True
            elif isinstance(test.ops[0], ast.Lt) and isinstance(l, ast.Name) and isinstance(r, ast.Name) and r.id not in stored_in_loop:
                shape, cursor, bound_by_test = 'cursor', l.id, True        # a counter that runs up to a bound the loop does not change
            elif isinstance(test.ops[0], ast.Gt) and src(l).startswith('len(') and isinstance(l, ast.Call) \
                    and isinstance(l.args[0], ast.Name) and lin_const(lin(r, {})) is not None:
                shape, cursor, bound_by_test = 'shrink', l.args[0].id, True
            elif isinstance(test.ops[0], ast.Lt) and isinstance(l, ast.Call) and src(l).startswith('len(') \
                    and isinstance(l.args[0], ast.Name):
                shape, cursor, bound_by_test = 'grow', l.args[0].id, True
        if shape is None and isinstance(test, ast.Name):
            # `while data:` over a buffer the loop only ever replaces by a tail of itself: the truth of a sequence is len(data) > 0
            stores = [x for x in walk_no_nested(loop) if isinstance(x, ast.Assign) and any(
                isinstance(t_, ast.Name) and t_.id == test.id for t in x.targets for t_ in ast.walk(t))]
            if stores and all(len(x.targets) == 1 and isinstance(x.targets[0], ast.Name) and isinstance(x.value, ast.Subscript)
                              and isinstance(x.value.slice, ast.Slice) and src(x.value.value) == test.id for x in stores) \
                    and not any(isinstance(x, (ast.AugAssign, ast.For, ast.With, ast.NamedExpr)) and test.id in
                                {y.id for y in ast.walk(getattr(x, 'target', None) or x) if isinstance(y, ast.Name) and isinstance(y.ctx, ast.Store)}
                                for x in walk_no_nested(loop)):
                shape, cursor, bound_by_test = 'shrink', test.id, True
        if shape is None:
            # loop test does not name a cursor: look for an integer cursor that bounds itself
            # through unpack_from(fmt, D, cursor)
            for n in walk_no_nested(loop):
                if isinstance(n, ast.AugAssign) and isinstance(n.op, ast.Add) and isinstance(n.target, ast.Name):
                    shape, cursor = 'cursor', n.target.id
                    break
        if shape is None:
            return False, 'unrecognised', ['loop test %s matches no variant shape' % src(test)]
        problems = []
        for p in back_paths:
            facts, env = [], {}
            progressed = False
            bounded = bound_by_test
            for (n, lab) in p[:-1]:
                if n.kind == 'cond' and lab in ('T', 'F'):
                    facts += self.cond_fact(fi, n.ast, lab, env)
                elif n.kind == 'stmt' and not isinstance(lab, tuple):
                    st = n.ast
                    for e in n.exprs():
                        if e is not None:
                            facts += self.call_slice_facts(fi, e, env)
                            for x in walk_no_nested(e):
                                if isinstance(x, ast.Call) and shape == 'cursor':
                                    r = self.res.resolve_call(x, fi, count=False)
                                    if r.kind == 'lib' and r.lib == 'struct.unpack_from' and len(x.args) >= 3 \
                                            and src(x.args[2]) == cursor:
                                        bounded = True
                    if isinstance(st, ast.Assign) and len(st.targets) == 1 and isinstance(st.targets[0], ast.Name):
                        name = st.targets[0].id
                        if shape == 'shrink' and name == cursor:
                            v = st.value
                            if isinstance(v, ast.Subscript) and isinstance(v.slice, ast.Slice) \
                                    and src(v.value) == cursor and v.slice.lower is not None and v.slice.upper is None:
                                inc = lin(v.slice.lower, env)
                                if inc is not None and implies_ge(facts, inc, 1):
                                    progressed = True
                        elif name == cursor:
                            # cursor = cursor + k
                            f = lin(st.value, env)
                            if f is not None and f.get(cursor) == 1:
                                inc = {k: v for k, v in f.items() if k != cursor}
                                if implies_ge(facts, inc, 1):
                                    progressed = True
                        else:
                            env[name] = lin(st.value, env)
                            if self._nonempty_bytes(fi, st.value):
                                facts.append(({'len(%s)' % name: 1}, 1))        # a digest: at least one octet
                            if isinstance(st.value, ast.Subscript) and isinstance(st.value.slice, ast.Slice):
                                env[('slice', name)] = st.value
                            else:
                                env.pop(('slice', name), None)
                    elif isinstance(st, ast.Assign) and len(st.targets) == 1 and isinstance(st.targets[0], (ast.Tuple, ast.List)) \
                            and isinstance(st.value, (ast.Tuple, ast.List)) and len(st.value.elts) == len(st.targets[0].elts) \
                            and all(isinstance(t_, ast.Name) for t_ in st.targets[0].elts):
                        # a, b = x, y : elementwise (all right-hand sides are evaluated first)
                        vals = [lin(v_, env) for v_ in st.value.elts]
                        for t_, v_ in zip(st.targets[0].elts, vals):
                            if t_.id != cursor:
                                env[t_.id] = v_
                                env.pop(('slice', t_.id), None)
                    elif isinstance(st, ast.Assign):
                        for t in st.targets:
                            for nm in ast.walk(t):
                                if isinstance(nm, ast.Name):
                                    env.pop(nm.id, None)
                    elif isinstance(st, ast.AugAssign) and isinstance(st.target, ast.Name) and st.target.id == cursor:
                        if shape == 'cursor' and isinstance(st.op, ast.Add):
                            inc = lin(st.value, env)
                            if inc is not None and implies_ge(facts, inc, 1):
                                progressed = True
                        elif shape == 'grow' and isinstance(st.op, ast.Add):
                            if self._nonempty_bytes(fi, st.value):
                                progressed = True
            if not progressed or not bounded:
                why = 'no progress fact' if not progressed else 'cursor not bounded by the loop test or an unpack_from at the cursor'
                problems.append('%s on back-edge path: %s' % (
                    why, ' ; '.join('L%s %s%s' % (n.lineno, n.text()[:50], '[%s]' % lab if lab in ('T', 'F') else '')
                                    for n, lab in p[:-1] if n.kind in ('cond', 'stmt', 'handler') and n.text() != 'pass')))
        return not problems, shape + ':' + str(cursor), problems

    def _nonempty_bytes(self, fi, expr):
        """expr is (a local bound to) the result of an HMAC digest"""
        if isinstance(expr, ast.Name):
            for v in self.res.local_defs(fi).get(expr.id, []):
                if isinstance(v, ast.Constant) or (isinstance(v, ast.Call) and src(v.func) == 'bytes' and not v.args):
                    continue
                if not self._nonempty_bytes(fi, v):
                    return False
            return True
        if isinstance(expr, ast.Call):
            r = self.res.resolve_call(expr, fi, count=False)
            if r.kind == 'lib' and r.lib == 'method.digest':
                return True
            if r.targets and all(self._returns_digest(t) for t in r.targets):
                return True
        return False

    def _returns_digest(self, fi):
        rets = [n for n in walk_no_nested(fi.node) if isinstance(n, ast.Return) and n.value is not None]
        return bool(rets) and all(self._nonempty_bytes(fi, r.value) for r in rets)

    def check_reach(self, roots, exclude=()):
        """Analyse every loop in the functions reachable from roots.
        Returns list of dicts {fi, loop, kind, ok, shape, problems}."""
        quals = sorted(self.esc.reach(roots))
        out = []
        for q in quals:
            fi = self.prog.functions.get(q)
            if fi is None or q in exclude:
                continue
            g = build_cfg(fi)
            for head, loop in g.loops:
                if isinstance(loop, ast.While):
                    if isinstance(loop.test, ast.Constant) and loop.test.value is True:
                        out.append({'fi': fi, 'loop': loop, 'kind': 'while-true', 'ok': False, 'shape': 'while True',
                                    'problems': ['unbounded `while True` loop']})
                        continue
                    ok, shape, probs = self.check_while(fi, head, loop)
                    out.append({'fi': fi, 'loop': loop, 'kind': 'while', 'ok': ok, 'shape': shape, 'problems': probs})
                else:
                    it = src(loop.iter)
                    bad = any(s in it for s in ('itertools.', 'iter(', 'count(', 'cycle(', 'repeat('))
                    out.append({'fi': fi, 'loop': loop, 'kind': 'for', 'ok': not bad,
                                'shape': 'for over ' + it[:50],
                                'problems': ['for loop over a possibly infinite iterator: ' + it] if bad else []})
        return out, quals

    def recursion(self, quals):
        """cycles in the call graph restricted to quals (Tarjan-free: DFS with colours)."""
        graph = {}
        for q in quals:
            fi = self.prog.functions.get(q)
            if fi is None:
                continue
            _, cmap = self.esc.direct(fi)
            graph[q] = sorted({t.qual for calls in cmap.values() for t, _ in calls if t.qual in quals})
        cycles = []
        colour = {}

        def dfs(u, stack):
            colour[u] = 1
            for v in graph.get(u, ()):
                if colour.get(v) == 1:
                    cycles.append(stack[stack.index(v):] + [v] if v in stack else [u, v])
                elif colour.get(v) is None:
                    dfs(v, stack + [v])
            colour[u] = 2
        import sys
        sys.setrecursionlimit(10000)
        for q in sorted(graph):
            if colour.get(q) is None:
                dfs(q, [q])
        return cycles
